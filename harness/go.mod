module verifharness

go 1.23

require (
	github.com/JesseCoretta/go-stackage v0.0.0
	pgregory.net/rapid v1.3.0
)

replace github.com/JesseCoretta/go-stackage => /repo
