package props

// C04 — Marshal(Unmarshal(S)) reconstructs S.

import (
	"fmt"
	"reflect"
	"strings"

	stackage "github.com/JesseCoretta/go-stackage"
	"pgregory.net/rapid"
)

type C04Case struct {
	Root Node `json:"root"`
}

// eqUnmarshalStack checks that got is the unmarshalled form of the stack
// description n: label (case-insensitive) then one entry per element.
func eqUnmarshalStack(got any, n Node, path string) error {
	sl, ok := got.([]any)
	if !ok {
		return fmt.Errorf("%s: want a []any for a %s stack, got %T", path, n.Kind, got)
	}
	if len(sl) != len(n.Elems)+1 {
		return fmt.Errorf("%s: %s stack with %d elements unmarshalled to %d entries: %v", path, n.Kind, len(n.Elems), len(sl), sl)
	}
	lab, ok := sl[0].(string)
	if !ok || !strings.EqualFold(lab, n.Kind) {
		return fmt.Errorf("%s: label %#v, want %s", path, sl[0], n.Kind)
	}
	for i, e := range n.Elems {
		if err := eqUnmarshalEntry(sl[i+1], e, fmt.Sprintf("%s[%d]", path, i), false); err != nil {
			return err
		}
	}
	return nil
}

func eqUnmarshalEntry(got any, e Node, path string, asCondExpr bool) error {
	switch e.T {
	case "leaf":
		want := e.Leaf.Value()
		if got != want {
			return fmt.Errorf("%s: leaf %#v (%T), want %#v (%T)", path, got, got, want, want)
		}
	case "stack":
		return eqUnmarshalStack(got, e, path)
	case "cond":
		if c, isCond := unwrapCond(got); isCond && asCondExpr {
			// lenient: a Condition that is itself a Condition's expression may be passed through as-is
			return eqRealCond(c, e, path)
		}
		row, ok := got.([]any)
		if !ok || len(row) != 4 {
			return fmt.Errorf("%s: want a 4-entry CONDITION row, got %#v", path, got)
		}
		if lab, _ := row[0].(string); !strings.EqualFold(lab, "CONDITION") {
			return fmt.Errorf("%s: condition row label %#v", path, row[0])
		}
		if kw, _ := row[1].(string); kw != e.KW {
			return fmt.Errorf("%s: condition keyword %#v, want %q", path, row[1], e.KW)
		}
		if op, _ := row[2].(stackage.Operator); !sameOp(op, e.Op.Value()) {
			return fmt.Errorf("%s: condition operator %#v, want %#v", path, row[2], e.Op.Value())
		}
		return eqUnmarshalEntry(row[3], *e.Expr, path+".expr", true)
	}
	return nil
}

// eqRealStack walks a real Stack through Kind/Len/Index and compares with the description.
func eqRealStack(s stackage.Stack, n Node, path string) error {
	if !s.IsInit() {
		return fmt.Errorf("%s: not initialised", path)
	}
	// (Kind() reports a user-defined symbol in place of the word for non-LIST kinds)
	if !strings.EqualFold(s.Kind(), n.Kind) && !(n.Symbol != "" && n.Kind != "LIST" && s.Kind() == n.Symbol) {
		return fmt.Errorf("%s: Kind()=%s, want %s", path, s.Kind(), n.Kind)
	}
	if s.Len() != len(n.Elems) {
		return fmt.Errorf("%s: Len()=%d, want %d", path, s.Len(), len(n.Elems))
	}
	for i, e := range n.Elems {
		v, _ := s.Index(i)
		if err := eqRealValue(v, e, fmt.Sprintf("%s[%d]", path, i)); err != nil {
			return err
		}
	}
	return nil
}

func eqRealCond(c stackage.Condition, e Node, path string) error {
	if c.Keyword() != e.KW {
		return fmt.Errorf("%s: Keyword()=%q, want %q", path, c.Keyword(), e.KW)
	}
	if !sameOp(c.Operator(), e.Op.Value()) {
		return fmt.Errorf("%s: Operator()=%#v, want %#v", path, c.Operator(), e.Op.Value())
	}
	return eqRealValue(c.Expression(), *e.Expr, path+".expr")
}

func eqRealValue(v any, e Node, path string) error {
	switch e.T {
	case "leaf":
		want := e.Leaf.Value()
		if v != want {
			return fmt.Errorf("%s: %#v (%T), want %#v (%T)", path, v, v, want, want)
		}
	case "stack":
		st, ok := unwrapStack(v)
		if !ok {
			return fmt.Errorf("%s: %T, want a Stack", path, v)
		}
		return eqRealStack(st, e, path)
	case "cond":
		c, ok := unwrapCond(v)
		if !ok {
			return fmt.Errorf("%s: %T, want a Condition", path, v)
		}
		return eqRealCond(c, e, path)
	}
	return nil
}

// eqSlices: deep equality of two unmarshalled slices, labels case-insensitively,
// passed-through Conditions by IsEqual.
func eqSlices(a, b any, path string) error {
	sa, oka := a.([]any)
	sb, okb := b.([]any)
	if oka != okb {
		return fmt.Errorf("%s: %T vs %T", path, a, b)
	}
	if !oka {
		if ca, ok := unwrapCond(a); ok {
			// (a Condition passed through as-is keeps its alias wrapping; compare the underlying values)
			cb, ok2 := unwrapCond(b)
			if !ok2 {
				return fmt.Errorf("%s: Condition vs %T", path, b)
			}
			if err := condStructEq(ca, cb); err != nil {
				return fmt.Errorf("%s: passed-through Conditions differ: %v", path, err)
			}
			return nil
		}
		if !reflect.DeepEqual(a, b) {
			return fmt.Errorf("%s: %#v vs %#v", path, a, b)
		}
		return nil
	}
	if len(sa) != len(sb) {
		return fmt.Errorf("%s: lengths %d vs %d", path, len(sa), len(sb))
	}
	for i := range sa {
		if i == 0 {
			la, _ := sa[0].(string)
			lb, _ := sb[0].(string)
			if !strings.EqualFold(la, lb) {
				return fmt.Errorf("%s: labels %#v vs %#v", path, sa[0], sb[0])
			}
			continue
		}
		if err := eqSlices(sa[i], sb[i], fmt.Sprintf("%s[%d]", path, i)); err != nil {
			return err
		}
	}
	return nil
}

// condStructEq compares two real Conditions part by part through the getters only (no IsEqual: an
// equality closure installed on a node must not decide what the harness sees).
func condStructEq(a, b stackage.Condition) error {
	if a.Keyword() != b.Keyword() {
		return fmt.Errorf("keywords %q vs %q", a.Keyword(), b.Keyword())
	}
	oa, ob := a.Operator(), b.Operator()
	if (oa == nil) != (ob == nil) || (oa != nil && (oa.String() != ob.String() || oa.Context() != ob.Context())) {
		return fmt.Errorf("operators %v vs %v", oa, ob)
	}
	return exprStructEq(a.Expression(), b.Expression())
}

func exprStructEq(a, b any) error {
	if ca, ok := unwrapCond(a); ok && ca.IsInit() {
		cb, ok2 := unwrapCond(b)
		if !ok2 {
			return fmt.Errorf("Condition vs %T", b)
		}
		return condStructEq(ca, cb)
	}
	if sa, ok := unwrapStack(a); ok && sa.IsInit() {
		sb, ok2 := unwrapStack(b)
		if !ok2 {
			return fmt.Errorf("Stack vs %T", b)
		}
		if sa.Kind() != sb.Kind() || sa.Len() != sb.Len() {
			return fmt.Errorf("stacks %s/%d vs %s/%d", sa.Kind(), sa.Len(), sb.Kind(), sb.Len())
		}
		for i := 0; i < sa.Len(); i++ {
			x, _ := sa.Index(i)
			y, _ := sb.Index(i)
			if err := exprStructEq(x, y); err != nil {
				return fmt.Errorf("[%d]: %v", i, err)
			}
		}
		return nil
	}
	if !reflect.DeepEqual(a, b) {
		return fmt.Errorf("%#v vs %#v", a, b)
	}
	return nil
}

func scribble(u []any) {
	for i := range u {
		if sub, ok := u[i].([]any); ok {
			scribble(sub)
		}
		u[i] = "scribbled"
	}
}

func runC04(c C04Case) (st Stats, err error) {
	hasCapOrFold := false
	c.Root.Walk(func(n Node, depth int) {
		if n.IsStack() {
			if n.Cap > 0 || n.Fold {
				hasCapOrFold = true
			}
			if n.Fold {
				st.Class("folded-label")
			}
			if depth > 0 && len(n.Elems) == 0 {
				st.Class("empty-nested-stack")
				st.NonTrivial = true
			}
			if depth > 0 && n.Kind == "BASIC" {
				st.Class("BASIC-nested")
			}
		}
		if n.IsCond() && n.Expr != nil {
			if n.Expr.IsStack() {
				st.Class("cond-with-stack-expr")
				st.NonTrivial = true
			}
			if n.Expr.IsCond() {
				st.Class("cond-with-cond-expr")
			}
		}
		if n.IsLeaf() && n.Leaf.IsNil() {
			st.Class("nil-leaf")
			st.NonTrivial = true
		}
	})
	if c.Root.Depth() >= 3 {
		st.Class("depth>=3")
		st.NonTrivial = true
	}

	var v *Violation
	p := guard(func() {
		s := BuildStack(c.Root)
		u, uerr := s.Unmarshal()
		if uerr != nil {
			v = violf("unmarshal/error", "Unmarshal returned %v for %s", uerr, c.Root.Brief())
			return
		}
		if e := eqUnmarshalStack(u, c.Root, "S"); e != nil {
			v = violf("unmarshal/reference", "Unmarshal differs from the reference: %v\n  got %v\n  tree %s", e, u, c.Root.Brief())
			return
		}
		var r stackage.Stack
		if merr := r.Marshal(u...); merr != nil {
			v = violf("marshal/error", "Marshal(Unmarshal(S)) returned %v; input %v", merr, u)
			return
		}
		if e := eqRealStack(r, c.Root, "R"); e != nil {
			v = violf("marshal/reconstruction", "reconstruction differs from the description: %v\n  unmarshalled %v\n  tree %s", e, u, c.Root.Brief())
			return
		}
		u2, u2err := r.Unmarshal()
		if u2err != nil {
			v = violf("unmarshal2/error", "Unmarshal of the reconstruction returned %v", u2err)
			return
		}
		if e := eqSlices(u, u2, "U"); e != nil {
			v = violf("roundtrip/unmarshal-differs", "Unmarshal(R) differs from Unmarshal(S): %v\n  first  %v\n  second %v", e, u, u2)
			return
		}
		if !hasCapOrFold {
			st.Class("isequal-checked")
			if e := s.IsEqual(r); e != nil {
				v = violf("roundtrip/isequal", "S.IsEqual(R)=%v; tree %s", e, c.Root.Brief())
				return
			}
			if e := r.IsEqual(s); e != nil {
				v = violf("roundtrip/isequal", "R.IsEqual(S)=%v; tree %s", e, c.Root.Brief())
				return
			}
		}
		// the returned slice is the caller's: scribbling over it must not reach S
		scribble(u)
		u3, _ := s.Unmarshal()
		if e := eqUnmarshalStack(u3, c.Root, "S"); e != nil {
			v = violf("unmarshal/shared-slice", "altering the slice returned by Unmarshal changed S: %v", e)
			return
		}
	})
	if p != "" {
		return st, violf("roundtrip/panic", "panicked: %s; tree %s", p, c.Root.Brief())
	}
	if v != nil {
		return st, v
	}
	return st, nil
}

func c04TreeGen(tier Tier) TreeGen {
	g := TreeGen{
		MaxDepth: 4, MaxWidth: 6, Budget: 35,
		Kinds: stackKinds,
		Leaf:  func(t *rapid.T) Val { return genPrimVal(t, true, true) },
		Conds: true, CondExprStack: true, CondExprCond: true, NotAsCondExpr: true,
		NilLeaves: true, EmptyStacks: true, Caps: true, IndexOpts: true, FIFOOpt: true, Options: true, Wraps: true, NoOpConds: true, DeepChains: true, Ambient: true, Pasts: true, WideRuns: true, NoNestAfter: true, ReadOnlyNodes: true, RejectValidity: true,
	}
	if tier.Thorough {
		g.MaxDepth, g.MaxWidth, g.Budget = 5, 8, 55
	}
	return g
}

func genC04(t *rapid.T, tier Tier) C04Case {
	root := c04TreeGen(tier).Draw(t)
	// fold on some nodes (labels then come back lower-cased)
	if rapid.IntRange(0, 3).Draw(t, "somefold") == 0 {
		var mark func(n *Node)
		mark = func(n *Node) {
			if n.IsStack() && rapid.IntRange(0, 2).Draw(t, "fold") == 0 {
				n.Fold = true
			}
			for i := range n.Elems {
				mark(&n.Elems[i])
			}
			if n.Expr != nil {
				mark(n.Expr)
			}
		}
		mark(&root)
	}
	// stringer leaves are not comparable by IsEqual's primitive path; keep them (they are passed through unchanged)
	return C04Case{Root: root}
}

func init() {
	Register(Def[C04Case]{
		ID: "C04",
		Rule: "rapid-generated trees (depth<=4/5, width<=6/8) of AND/OR/NOT/LIST/BASIC stacks (empty ones included), Conditions whose expression is a primitive, a Stack or a Condition, primitive and nil leaves, capacity or fold on some nodes. " +
			"Oracle: (1) Unmarshal equals the reference expansion of the description; (2) Marshal of that result into a zero Stack succeeds and a Kind/Len/Index/Keyword/Operator/Expression walk of the reconstruction matches the description at every position; " +
			"(3) Unmarshal of the reconstruction deep-equals the first slice (labels case-insensitively); (4) IsEqual both ways when no capacity/fold is involved; (5) scribbling over the returned slice does not reach the stack. " +
			"non-trivial = tree has a Condition with a Stack expression, or depth>=3, or an empty nested stack, or a nil leaf; distinct = distinct tree JSON",
		Gen: genC04,
		Run: runC04,
		Floors: map[string]float64{"cond-with-stack-expr": 0.1, "cond-with-cond-expr": 0.03, "empty-nested-stack": 0.1, "nil-leaf": 0.1, "depth>=3": 0.2,
			"BASIC-nested": 0.1, "folded-label": 0.05, "isequal-checked": 0.12},
		Assumptions: []string{"[]any values are not used as leaves (they are re-interpreted by design)", "a Condition that is itself a Condition's expression may be passed through as-is by Unmarshal (Condition.Unmarshal documents 'as-is' for non-Stack expressions)"},
	})
}
