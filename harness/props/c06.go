package props

// C06 — a Condition holds exactly what it accepted, and validity gates its rendering.

import (
	"errors"
	"fmt"

	stackage "github.com/JesseCoretta/go-stackage"
	"pgregory.net/rapid"
)

type KwDesc struct {
	K string `json:"k"` // str stringer zerostringer nil int
	S string `json:"s,omitempty"`
}

func (k KwDesc) Value() any {
	switch k.K {
	case "str":
		return k.S
	case "stringer":
		return strLeaf{k.S}
	case "zerostringer":
		return strLeaf{}
	case "sstringer":
		return strStringer(k.S)
	case "istringer":
		return intStringer(len(k.S) + 1)
	case "plainnamed":
		return plainNamed(k.S)
	case "int":
		return 42
	}
	return nil
}

// accepted keyword text, ok=false when the argument must be ignored
func (k KwDesc) Accepted() (string, bool) {
	switch k.K {
	case "str":
		return k.S, true
	case "stringer":
		if k.S != "" {
			return k.S, true
		}
	case "sstringer":
		if k.S != "" {
			return "attr:" + k.S, true // what its String method says, not the underlying string
		}
	case "istringer":
		return "d" + itoa(len(k.S)+1), true
	}
	return "", false
}

type C06Step struct {
	Op   string   `json:"op"` // kw op ex nonest nopad paren encap seterr
	Kw   *KwDesc  `json:"kw,omitempty"`
	Oper *OpDesc  `json:"oper,omitempty"`
	Ex   *Node    `json:"ex,omitempty"`   // nil pointer = untyped nil expression
	Mode int      `json:"mode,omitempty"` // tri-state: 0 true 1 false 2 toggle ; seterr: 0 set 1 clear
	Enc  []string `json:"enc,omitempty"`  // encap: nil => no argument (clear)
}

type C06Case struct {
	Start string    `json:"start"` // cond | init
	Kw    KwDesc    `json:"kw"`
	Oper  OpDesc    `json:"oper"`
	Ex    *Node     `json:"ex,omitempty"`
	Steps []C06Step `json:"steps"`
}

// encapModelAdd mirrors the documented encapsulation rules: a single string is
// used for both sides; a character already in use is refused.
func encapModelAdd(list [][]string, pair []string) [][]string {
	if len(pair) == 0 {
		return list
	}
	use := pair
	if len(pair) > 2 {
		use = pair[:2]
	}
	for _, ch := range use {
		for _, e := range list {
			for _, x := range e {
				if x == ch {
					return list
				}
			}
		}
	}
	return append(append([][]string{}, list...), append([]string{}, pair...))
}

type c06Model struct {
	kw     string
	op     *OpDesc
	opVal  stackage.Operator
	ex     *Node
	exVal  any
	nonest bool
	nopad  bool
	paren  bool
	enc    [][]string
	err    error
}

func exprIsStackLike(n *Node) bool { return n != nil && n.IsStack() }

func exprRejected(m *c06Model, n *Node) bool {
	if n == nil {
		return true
	}
	if m.err != nil {
		return true
	}
	if n.IsLeaf() {
		if n.Leaf.IsNil() {
			return true
		}
		if n.Leaf.K == "str" && n.Leaf.S == "" {
			return true
		}
	}
	if exprIsStackLike(n) && m.nonest {
		return true
	}
	return false
}

func opaqueLeaf(k string) bool {
	switch k {
	case "slice", "array", "map", "imap", "ptr", "tnil":
		return true
	}
	return false
}

func (m *c06Model) valid() bool {
	if m.kw == "" || m.op == nil || m.ex == nil {
		return false
	}
	if m.op.K == "cmp" && (m.op.I < 1 || m.op.I > 6) {
		return false
	}
	return true
}

func (m *c06Model) render() string {
	if !m.valid() {
		return ""
	}
	pad := " "
	if m.nopad {
		pad = ""
	}
	var raw string
	switch {
	case m.ex.IsLeaf():
		raw = m.ex.Leaf.Text()
	case m.ex.IsStack():
		raw = RenderStack(*m.ex)
	case m.ex.IsCond():
		raw = RenderCond(*m.ex)
	}
	s := m.kw + pad + m.op.TextOf() + pad + encapText(m.enc, raw)
	if m.paren {
		s = "(" + pad + s + pad + ")"
	}
	return s
}

func triApply(cur bool, mode int) bool {
	switch mode {
	case 0:
		return true
	case 1:
		return false
	}
	return !cur
}

func triArgs(mode int) []bool {
	switch mode {
	case 0:
		return []bool{true}
	case 1:
		return []bool{false}
	}
	return nil
}

func runC06(c C06Case) (st Stats, err error) {
	var cd stackage.Condition
	m := &c06Model{}
	setKw := func(k KwDesc) {
		if s, ok := k.Accepted(); ok {
			m.kw = s
		}
	}
	setOp := func(o OpDesc) bool {
		if o.Accepted() {
			oo := o
			m.op = &oo
			m.opVal = o.Value()
			return true
		}
		return false
	}
	setEx := func(n *Node, v any) bool {
		if exprRejected(m, n) {
			return false
		}
		m.ex, m.exVal = n, v
		return true
	}
	buildEx := func(n *Node) any {
		if n == nil {
			return nil
		}
		return Build(*n)
	}
	rejectedAfterAccepted := false

	check := func(where string) *Violation {
		var v *Violation
		p := guard(func() {
			if got := cd.Keyword(); got != m.kw {
				v = violf("Keyword", "%s: Keyword()=%q, model %q", where, got, m.kw)
				return
			}
			if got := cd.Operator(); !sameOp(got, m.opVal) {
				v = violf("Operator", "%s: Operator()=%#v, model %#v", where, got, m.opVal)
				return
			}
			if got := cd.Expression(); !sameValue(got, m.exVal) {
				v = violf("Expression", "%s: Expression()=%s, model %s", where, identOf(got), identOf(m.exVal))
				return
			}
			if got := cd.Err(); (got != nil) != (m.err != nil) {
				v = violf("Err", "%s: Err()=%v, model %v", where, got, m.err)
				return
			}
			valid := cd.Valid() == nil
			if valid != m.valid() {
				cls := "Valid"
				if m.op == nil {
					cls = "Valid/no-operator"
				}
				v = violf(cls, "%s: Valid()=%v, model valid=%v (kw=%q op=%v ex=%v)", where, cd.Valid(), m.valid(), m.kw, m.op, m.ex != nil)
				return
			}
			str := cd.String()
			if (str == "") != !valid {
				v = violf("String/gating", "%s: String()=%q while Valid()=%v", where, str, cd.Valid())
				return
			}
			want := m.render()
			if m.valid() && m.ex.IsLeaf() && opaqueLeaf(m.ex.Leaf.K) {
				// how a value of a non-primitive Go type is spelled is not part of the statement: only gating (above) is checked
				want = str
			}
			if !matchPattern(want, str) {
				v = violf("String/render", "%s: String()=%q, canonical %q", where, str, showPattern(want))
				return
			}
			if cd.IsParen() != m.paren || cd.IsPadded() != !m.nopad || cd.CanNest() != !m.nonest || cd.IsEncap() != (len(m.enc) > 0) {
				v = violf("options", "%s: IsParen=%v IsPadded=%v CanNest=%v IsEncap=%v; model paren=%v nopad=%v nonest=%v enc=%v",
					where, cd.IsParen(), cd.IsPadded(), cd.CanNest(), cd.IsEncap(), m.paren, m.nopad, m.nonest, m.enc)
			}
		})
		if p != "" {
			cls := "check/panic"
			if m.op == nil {
				cls = "String/no-operator/panic"
			}
			return violf(cls, "%s: query panicked: %s", where, p)
		}
		return v
	}

	// ---- start state
	if c.Start == "cond" {
		var exv any
		p := guard(func() {
			exv = buildEx(c.Ex)
			cd = stackage.Cond(c.Kw.Value(), c.Oper.Value(), exv)
		})
		if p != "" {
			cls := "Cond/panic"
			if c.Oper.Value() == nil {
				cls = "Cond/nil-operator"
			}
			return st, violf(cls, "Cond(%v, %v, %v) panicked: %s", c.Kw, c.Oper, c.Ex, p)
		}
		setKw(c.Kw)
		setOp(c.Oper)
		setEx(c.Ex, exv)
		if !m.valid() {
			m.err = errors.New("invalid")
		}
		st.Class("start-Cond")
	} else {
		if p := guard(func() { cd.Init() }); p != "" {
			return st, violf("Init/panic", "%s", p)
		}
		st.Class("start-Init")
	}
	if v := check("start"); v != nil {
		return st, v
	}

	for i, s := range c.Steps {
		st.Sub++
		where := fmt.Sprintf("after step %d (%s)", i, s.Op)
		cls := s.Op
		p := guard(func() {
			switch s.Op {
			case "kw":
				had := m.kw != ""
				if _, ok := s.Kw.Accepted(); !ok && had {
					rejectedAfterAccepted = true
				}
				cls = "SetKeyword/" + s.Kw.K
				setKw(*s.Kw)
				cd.SetKeyword(s.Kw.Value())
			case "op":
				cls = "SetOperator/" + s.Oper.K
				if s.Oper.K == "user" && !s.Oper.Accepted() {
					cls = "SetOperator/empty"
					st.Class("empty-operator")
				}
				if s.Oper.K == "nil" {
					st.Class("nil-operator")
				}
				if s.Oper.K == "cmp" && (s.Oper.I < 1 || s.Oper.I > 6) {
					st.Class("bogus-builtin-operator")
				}
				if !setOp(*s.Oper) && m.op != nil {
					rejectedAfterAccepted = true
				}
				cd.SetOperator(s.Oper.Value())
			case "ex":
				v := buildEx(s.Ex)
				cls = "SetExpression"
				if s.Ex != nil {
					st.Class("expr-" + s.Ex.T)
					if s.Ex.IsLeaf() && opaqueLeaf(s.Ex.Leaf.K) {
						st.Class("expr-opaque-go-type")
						if m.ex != nil && m.ex.IsLeaf() && m.ex.Leaf.K == s.Ex.Leaf.K && m.err == nil {
							st.Class("expr-opaque-same-type-twice")
						}
					}
				}
				if m.err != nil {
					st.Class("expression-offered-under-error")
				}
				if exprIsStackLike(s.Ex) && m.nonest {
					st.Class("stack-under-nonest")
				}
				if !setEx(s.Ex, v) && m.ex != nil {
					rejectedAfterAccepted = true
				}
				cd.SetExpression(v)
			case "poke":
				// the held expression is changed through ITS OWN handle (no setter of the Condition is called):
				// String() renders the expression as it is now
				cls = "poke-held-expression"
				if hs, ok := unwrapStack(m.exVal); ok && m.ex != nil && m.ex.IsStack() && !m.ex.ReadOnly && (m.ex.Cap == 0 || len(m.ex.Elems) < m.ex.Cap) {
					leaf := "poked" + itoa(i)
					hs.Push(leaf)
					cp := *m.ex
					cp.Elems = append(append([]Node{}, m.ex.Elems...), LeafN(VS(leaf)))
					m.ex = &cp
					st.Class("held-stack-poked")
				}
			case "otherhandle":
				// a second handle of the Condition (a copy of the variable) is re-initialised and given other
				// content: Init replaces the instance behind THAT handle only, this one keeps what it accepted
				cls = "second-handle-reinitialised"
				h := cd
				h.Init()
				h.SetKeyword("elsewhere").SetOperator(stackage.Ge).SetExpression("other value")
				h.SetParen(true)
				st.Class("second-handle-reinitialised")
			case "nonest":
				m.nonest = triApply(m.nonest, s.Mode)
				cd.SetNoNesting(triArgs(s.Mode)...)
			case "nopad":
				m.nopad = triApply(m.nopad, s.Mode)
				cd.SetNoPadding(triArgs(s.Mode)...)
			case "paren":
				m.paren = triApply(m.paren, s.Mode)
				cd.SetParen(triArgs(s.Mode)...)
			case "encap":
				if s.Enc == nil {
					m.enc = nil
					cd.SetEncap()
				} else if len(s.Enc) == 1 {
					m.enc = encapModelAdd(m.enc, s.Enc)
					cd.SetEncap(s.Enc[0])
				} else {
					m.enc = encapModelAdd(m.enc, s.Enc)
					cd.SetEncap(append([]string{}, s.Enc...))
				}
			case "seterr":
				if s.Mode == 0 || s.Mode == 2 {
					m.err = errors.New("user error")
					if s.Mode == 2 {
						m.err = errors.New("") // an error is an error whatever its message says
					}
					cd.SetErr(m.err)
				} else {
					m.err = nil
					cd.SetErr(nil)
				}
				st.Class("toggle-err")
			}
		})
		if p != "" {
			if s.Op == "op" && s.Oper.K == "nil" {
				cls = "SetOperator/nil"
			}
			return st, violf(cls+"/panic", "step %d (%+v) panicked: %s", i, s, p)
		}
		if v := check(where); v != nil {
			v.Msg = fmt.Sprintf("%s [case step %+v]", v.Msg, s)
			return st, v
		}
		if m.op == nil {
			st.Class("state-without-operator")
		}
	}
	st.NonTrivial = rejectedAfterAccepted || st.hasClass("state-without-operator") || st.hasClass("toggle-err")
	return st, nil
}

func (s *Stats) hasClass(c string) bool {
	for _, x := range s.Classes {
		if x == c {
			return true
		}
	}
	return false
}

func genKw(t *rapid.T) KwDesc {
	switch rapid.IntRange(0, 9).Draw(t, "kwclass") {
	case 0:
		return KwDesc{K: "str", S: ""}
	case 1:
		return KwDesc{K: "stringer", S: rapid.SampledFrom([]string{"sk", "Ключ"}).Draw(t, "sk")}
	case 2:
		return KwDesc{K: rapid.SampledFrom([]string{"zerostringer", "nil", "int", "plainnamed"}).Draw(t, "kwbad"), S: "pn"}
	case 3:
		return KwDesc{K: rapid.SampledFrom([]string{"sstringer", "istringer"}).Draw(t, "kwnamed"), S: rapid.SampledFrom([]string{"cn", "ou", "x y"}).Draw(t, "nk")}
	}
	return KwDesc{K: "str", S: rapid.SampledFrom([]string{"cn", "person", "k", "two words", "é", " ", "\t", "\u00a0", " k ", "K"}).Draw(t, "kw")}
}

func genOper(t *rapid.T) OpDesc {
	switch rapid.IntRange(0, 9).Draw(t, "opclass") {
	case 0:
		return OpDesc{K: "nil"}
	case 1:
		return OpDesc{K: "cmp", I: rapid.SampledFrom([]int{0, 7, 8, 100, 255}).Draw(t, "bogus")}
	case 2:
		return OpDesc{K: "user", Text: rapid.SampledFrom([]string{"", "~="}).Draw(t, "utext"), Ctx: rapid.SampledFrom([]string{"", "ctx"}).Draw(t, "uctx")}
	case 3:
		return OpDesc{K: rapid.SampledFrom([]string{"user", "uslice"}).Draw(t, "ukind"), Text: "≈", Ctx: "approx"}
	}
	return OpDesc{K: "cmp", I: rapid.IntRange(1, 6).Draw(t, "cmp")}
}

var c06ExprGen = TreeGen{MaxDepth: 2, MaxWidth: 3, Budget: 8, Kinds: []string{"AND", "OR", "LIST"},
	Leaf: func(t *rapid.T) Val { return genPrimVal(t, false, false) }, Options: true, Ambient: true, Pasts: true}

func genExpr(t *rapid.T) *Node {
	switch rapid.IntRange(0, 11).Draw(t, "exclass") {
	case 0:
		return nil
	case 1:
		n := LeafN(VS(""))
		return &n
	case 2:
		n := LeafN(VNil())
		return &n
	case 3, 4:
		n := c06ExprGen.Draw(t)
		n.Wrap = rapid.SampledFrom([]int{WrapNative, WrapNative, WrapAliasS, WrapPtr, WrapAlias, WrapLoud, WrapPtrLoud}).Draw(t, "wrap")
		return &n
	case 5:
		e := LeafN(VS("inner"))
		n := Node{T: "cond", KW: "ik", Op: OpEq(), Expr: &e}
		return &n
	case 6:
		// values of Go types that cannot be compared with == (two consecutive offers of the same type included)
		n := LeafN(genUncomparable(t, rapid.IntRange(0, 1).Draw(t, "utag")))
		return &n
	case 7:
		z := genZooLeaf(t, rapid.IntRange(0, 1).Draw(t, "ztag"))
		if !opaqueLeaf(z.K) {
			z = Val{K: "tnil", Depth: 1} // (a Stringer answering "" is spelled in a way the statement does not fix)
		}
		n := LeafN(z)
		return &n
	}
	n := LeafN(genPrimVal(t, false, true))
	return &n
}

func genC06(t *rapid.T, tier Tier) C06Case {
	c := C06Case{Start: rapid.SampledFrom([]string{"cond", "cond", "init"}).Draw(t, "start")}
	if c.Start == "cond" {
		c.Kw, c.Oper, c.Ex = genKw(t), genOper(t), genExpr(t)
	}
	n := rapid.IntRange(0, 25).Draw(t, "nsteps")
	ops := []string{"kw", "op", "op", "ex", "ex", "ex", "nonest", "nopad", "paren", "encap", "seterr", "poke", "poke", "otherhandle"}
	lastEx := c.Ex
	for i := 0; i < n; i++ {
		s := C06Step{Op: rapid.SampledFrom(ops).Draw(t, "op")}
		switch s.Op {
		case "kw":
			k := genKw(t)
			s.Kw = &k
		case "op":
			o := genOper(t)
			s.Oper = &o
		case "ex":
			s.Ex = genExpr(t)
			if lastEx != nil && lastEx.IsLeaf() && rapid.IntRange(0, 3).Draw(t, "sametype?") == 0 {
				// another value of exactly the type offered last (same Go type, different content)
				v := *lastEx.Leaf
				switch {
				case opaqueLeaf(v.K) && len(v.Elems) > 0 && v.K != "ptr":
					v.Elems = append([]Val{}, v.Elems...)
					v.Elems[0] = mutatePrim(v.Elems[0])
				case v.K == "str" || v.K == "int" || v.K == "bool":
					v = mutatePrim(v)
				}
				n := LeafN(v)
				s.Ex = &n
			}
			lastEx = s.Ex
		case "nonest", "nopad", "paren":
			s.Mode = rapid.IntRange(0, 2).Draw(t, "mode")
		case "seterr":
			s.Mode = rapid.IntRange(0, 2).Draw(t, "mode")
		case "encap":
			switch rapid.IntRange(0, 3).Draw(t, "encform") {
			case 0:
				s.Enc = nil
			default:
				s.Enc = append([]string{}, rapid.SampledFrom(encapPool).Draw(t, "enc")...)
			}
		}
		c.Steps = append(c.Steps, s)
	}
	return c
}

func init() {
	Register(Def[C06Case]{
		ID: "C06",
		Rule: "rapid-generated setter histories (0..25 calls of SetKeyword/SetOperator/SetExpression/SetNoNesting/SetNoPadding/SetParen/SetEncap/SetErr) starting from Cond(kw,op,ex) with arbitrary (also rejected) arguments or from Init(); " +
			"arguments: keywords (strings incl. empty, Stringers, zero Stringer, nil, int), operators (six built-ins, bogus built-ins, user-defined with empty text/context, nil), expressions (nil, empty string, text/number/bool/Stringer, Stack trees native/alias/pointer, Condition). " +
			"After every step Keyword/Operator/Expression (identity), Err, Valid, String (canonical kw pad op pad encap(expr), paren iff requested, empty iff invalid) and option getters are compared with a three-field model. " +
			"non-trivial = a rejected value offered after an accepted one for the same component, or a state without operator reached, or Err toggled; distinct = distinct case JSON",
		Gen: genC06,
		Run: runC06,
		Floors: map[string]float64{"nil-operator": 0.1, "empty-operator": 0.05, "bogus-builtin-operator": 0.05, "stack-under-nonest": 0.03,
			"expression-offered-under-error": 0.1, "start-Init": 0.2, "start-Cond": 0.4, "state-without-operator": 0.2, "expr-stack": 0.1, "expr-cond": 0.05, "expr-opaque-go-type": 0.1, "expr-opaque-same-type-twice": 0.01},
		Assumptions: []string{"no validity/presentation policy installed (C14)", "stack expressions without their own String method are C12's business and use aliases with String here"},
	})
}
