package props

// C12 — user-defined aliases of Stack and Condition behave as the native types.

import (
	"fmt"

	stackage "github.com/JesseCoretta/go-stackage"
	"pgregory.net/rapid"
)

type C12Case struct {
	Root  Node    `json:"root"` // Wrap fields carry the wrap assignment W
	Paths [][]int `json:"paths"`
	Probe int     `json:"probe"` // selects the stack kind used for the converter probes
}

func describeValue(v any) string {
	if v == nil {
		return "nil"
	}
	if s, ok := stackage.ConvertStack(v); ok {
		return fmt.Sprintf("stack:%s:%q:len%d", s.Kind(), s.String(), s.Len())
	}
	if c, ok := stackage.ConvertCondition(v); ok {
		return fmt.Sprintf("cond:%q:%q:%v", c.Keyword(), c.String(), c.Operator())
	}
	return fmt.Sprintf("%T:%#v", v, v)
}

// parallel walk of subject and reference, driven by the description
func c12WalkPair(sub, ref any, n Node, path string, st *Stats) *Violation {
	switch n.T {
	case "stack":
		ss, ok1 := stackage.ConvertStack(sub)
		rs, ok2 := stackage.ConvertStack(ref)
		if !ok1 || !ok2 {
			return violf("convert/"+wrapName(n.Wrap), "%s: ConvertStack failed (subject %v, reference %v) for wrap %s", path, ok1, ok2, wrapName(n.Wrap))
		}
		if ss.IsNesting() != rs.IsNesting() {
			return violf("IsNesting/stack-element", "%s: IsNesting()=%v on the aliased tree, %v on the native tree", path, ss.IsNesting(), rs.IsNesting())
		}
		if ss.Len() != rs.Len() {
			return violf("Len", "%s: Len %d vs %d", path, ss.Len(), rs.Len())
		}
		for i, e := range n.Elems {
			a, _ := ss.Index(i)
			b, _ := rs.Index(i)
			if v := c12WalkPair(a, b, e, fmt.Sprintf("%s[%d]", path, i), st); v != nil {
				return v
			}
		}
	case "cond":
		sc, ok1 := stackage.ConvertCondition(sub)
		rc, ok2 := stackage.ConvertCondition(ref)
		if !ok1 || !ok2 {
			return violf("convert/cond-"+wrapName(n.Wrap), "%s: ConvertCondition failed (subject %v, reference %v)", path, ok1, ok2)
		}
		if sc.IsNesting() != rc.IsNesting() {
			return violf("IsNesting/cond-expr", "%s: Condition.IsNesting()=%v aliased, %v native", path, sc.IsNesting(), rc.IsNesting())
		}
		if sc.Len() != rc.Len() {
			return violf("Condition.Len", "%s: Condition.Len()=%d aliased, %d native", path, sc.Len(), rc.Len())
		}
		if sc.String() != rc.String() {
			w := "?"
			if n.Expr != nil {
				w = wrapName(n.Expr.Wrap)
			}
			return violf("cond-expr/"+w+"/String", "%s: Condition.String()=%q aliased, %q native (expression wrap %s)", path, sc.String(), rc.String(), w)
		}
		if n.Expr != nil {
			return c12WalkPair(sc.Expression(), rc.Expression(), *n.Expr, path+".expr", st)
		}
	}
	return nil
}

func wrapName(w int) string {
	switch w {
	case WrapAlias:
		return "alias-without-String"
	case WrapAliasS:
		return "alias-with-String"
	case WrapPtr:
		return "pointer-to-alias"
	case WrapPtrNS:
		return "pointer-to-alias-without-String"
	case WrapLoud:
		return "alias-with-divergent-String"
	case WrapPtrLoud:
		return "pointer-to-alias-with-divergent-String"
	}
	return "native"
}

func runC12(c C12Case) (st Stats, err error) {
	// classification
	c.Root.Walk(func(n Node, depth int) {
		if depth >= 1 && (n.IsStack() || n.IsCond()) && n.Wrap != WrapNative {
			st.NonTrivial = true
			if n.IsStack() {
				st.Class("stack-" + wrapName(n.Wrap))
			} else {
				st.Class("cond-" + wrapName(n.Wrap))
			}
		}
		if n.IsCond() && n.Expr != nil && n.Expr.IsStack() && n.Expr.Wrap != WrapNative {
			st.Class("cond-expr-" + wrapName(n.Expr.Wrap))
		}
		if n.IsStack() && n.Wrap != WrapNative {
			for _, e := range n.Elems {
				if e.IsStack() && e.Wrap != WrapNative {
					st.Class("alias-inside-alias")
				}
			}
		}
	})

	var v *Violation
	p := guard(func() {
		sub := BuildStack(c.Root)
		sub2 := BuildStack(c.Root)
		ref := buildStack(c.Root, BuildOpts{AllNative: true})

		if a, b := sub.String(), ref.String(); a != b {
			v = violf("String", "String() differs: aliased %q, native %q\n  tree %s", a, b, c.Root.Brief())
			return
		}
		if vv := c12WalkPair(sub, ref, c.Root, "root", &st); vv != nil {
			vv.Msg += "\n  tree " + c.Root.Brief()
			v = vv
			return
		}
		// reference verdict: native against native (nil unless some node carries a rejecting equality closure)
		ref2 := buildStack(c.Root, BuildOpts{AllNative: true})
		want := ref.IsEqual(ref2)
		if want != nil {
			st.Class("isequal-decided-by-a-nested-closure")
		}
		for i, pair := range [][2]any{{sub, ref}, {ref, sub}, {sub, sub2}, {sub, wrapStack(ref, c.Root.Wrap)}, {ref, wrapStack(sub, c.Root.Wrap)}} {
			if e := pair[0].(stackage.Stack).IsEqual(pair[1]); (e == nil) != (want == nil) {
				v = violf("IsEqual", "IsEqual verdict differs between aliased and native builds of one description (pair %d): %v, native/native %v\n  tree %s", i, e, want, c.Root.Brief())
				return
			}
		}
		ua, ea := sub.Unmarshal()
		ub, eb := ref.Unmarshal()
		if (ea != nil) != (eb != nil) {
			v = violf("Unmarshal", "Unmarshal errors differ: %v vs %v", ea, eb)
			return
		}
		if e := eqSlices(ua, ub, "U"); e != nil {
			v = violf("Unmarshal", "Unmarshal differs: %v\n  aliased %v\n  native  %v\n  tree %s", e, ua, ub, c.Root.Brief())
			return
		}
		for _, path := range c.Paths {
			st.Sub++
			x, okx := sub.Traverse(path...)
			y, oky := ref.Traverse(path...)
			if okx != oky || describeValue(x) != describeValue(y) {
				v = violf("Traverse", "Traverse(%v): aliased (%s,%v), native (%s,%v)\n  tree %s", path, describeValue(x), okx, describeValue(y), oky, c.Root.Brief())
				return
			}
		}
		// Transfer out of both trees into fresh destinations (native and alias destination forms)
		d1, d2 := stackage.Basic(), stackage.Basic()
		ok1 := sub.Transfer(MyStack(d1))
		ok2 := ref.Transfer(d2)
		if ok1 != ok2 || d1.Len() != d2.Len() {
			v = violf("Transfer", "Transfer: aliased tree into alias destination gave (%v, len %d), native (%v, len %d)", ok1, d1.Len(), ok2, d2.Len())
			return
		}
		for i := 0; i < d1.Len(); i++ {
			a, _ := d1.Index(i)
			b, _ := d2.Index(i)
			if describeValue(a) != describeValue(b) {
				v = violf("Transfer", "Transfer: destination element %d differs: %s vs %s", i, describeValue(a), describeValue(b))
				return
			}
		}
		// no-nesting refusal: a no-nesting stack is offered the members of both trees one by one (and both trees
		// wholesale through Transfer): what it accepts and what it refuses must not depend on the alias wrapping
		nn1, nn2 := stackage.And().SetNoNesting(true), stackage.And().SetNoNesting(true)
		for i := 0; i < sub.Len() && i < ref.Len(); i++ {
			a, _ := sub.Index(i)
			b, _ := ref.Index(i)
			nn1.Push(a)
			nn2.Push(b)
			if nn1.Len() != nn2.Len() {
				v = violf("no-nesting-refusal", "a no-nesting stack treated member %d differently: aliased form %s -> Len %d, native form %s -> Len %d\n  tree %s", i, describeValue(a), nn1.Len(), describeValue(b), nn2.Len(), c.Root.Brief())
				return
			}
		}
		t1, t2 := stackage.Or().SetNoNesting(true), stackage.Or().SetNoNesting(true)
		if r1, r2 := sub.Transfer(t1), ref.Transfer(t2); r1 != r2 || t1.Len() != t2.Len() {
			v = violf("no-nesting-refusal/Transfer", "Transfer into a no-nesting destination: aliased tree (%v, len %d), native tree (%v, len %d)\n  tree %s", r1, t1.Len(), r2, t2.Len(), c.Root.Brief())
			return
		}
		// Defrag on both (content may contain nil leaves); results must stay indistinguishable
		sub.Defrag()
		ref.Defrag()
		if a, b := sub.String(), ref.String(); a != b {
			v = violf("Defrag", "after Defrag String() differs: aliased %q, native %q\n  tree %s", a, b, c.Root.Brief())
			return
		}
		ua, _ = sub.Unmarshal()
		ub, _ = ref.Unmarshal()
		if e := eqSlices(ua, ub, "U"); e != nil {
			v = violf("Defrag", "after Defrag Unmarshal differs: %v\n  tree %s", e, c.Root.Brief())
			return
		}
		// a pointer held as a Condition's expression converts to whatever it points to NOW: the pointee of every
		// pointer-to-alias expression in the aliased tree is re-assigned, and the Condition must follow
		var repoint func(x any, n Node) *Violation
		repoint = func(x any, n Node) *Violation {
			if s, ok := unwrapStack(x); ok {
				for i := 0; i < s.Len() && i < len(n.Elems); i++ {
					e, _ := s.Index(i)
					if vv := repoint(e, n.Elems[i]); vv != nil {
						return vv
					}
				}
				return nil
			}
			cd, ok := unwrapCond(x)
			if !ok || !n.IsCond() || n.Expr == nil || n.ReadOnly || n.NoNest || !condValid(n) && n.Expr == nil {
				return nil
			}
			ex := cd.Expression()
			if n.Expr.IsStack() && (n.Expr.Wrap == WrapPtr || n.Expr.Wrap == WrapPtrNS || n.Expr.Wrap == WrapPtrLoud) {
				switch ex.(type) {
				case *MyStack, *MyStackS, *MyStackLoud:
				default:
					return violf("pointer-expression/replaced", "a Condition was given a pointer to a Stack alias as its expression but holds %T: it can no longer follow the pointee", ex)
				}
			}
			fresh := stackage.Or().Push("pp", "qq", "rr")
			switch p := ex.(type) {
			case *MyStack:
				*p = MyStack(fresh)
			case *MyStackS:
				*p = MyStackS(fresh)
			case *MyStackLoud:
				*p = MyStackLoud(fresh)
			default:
				return repoint(ex, *n.Expr)
			}
			st.Class("pointer-expression-repointed")
			got, okc := stackage.ConvertStack(cd.Expression())
			if !okc || got != fresh || cd.Len() != 3 || !cd.IsNesting() {
				return violf("pointer-expression/stale", "after the pointee of a pointer-to-alias expression was re-assigned the Condition does not follow: ConvertStack(Expression())=(%s,%v) want the new stack %s; Len()=%d want 3", identOf(got), okc, identOf(fresh), cd.Len())
			}
			return nil
		}
		// (on a third, fresh build: nothing above or below is disturbed, and positions still match the description)
		if vv := repoint(BuildStack(c.Root), c.Root); vv != nil {
			v = vv
			return
		}
	})
	if p != "" {
		return st, violf("alias/panic", "panicked: %s\n  tree %s", p, c.Root.Brief())
	}
	if v != nil {
		return st, v
	}

	// ---- converter probes
	if v := c12ConverterProbes(c.Probe, &st); v != nil {
		return st, v
	}
	return st, nil
}

func c12ConverterProbes(probe int, st *Stats) *Violation {
	var v *Violation
	p := guard(func() {
		s := newStackOfKind(stackKinds[posMod(probe, 5)], probe%3).Push("x", probe)
		as, ass := MyStack(s), MyStackS(s)
		pas := &ass
		ppas := &pas
		for name, x := range map[string]any{"native": s, "alias": as, "aliasS": ass, "ptr-alias": &as, "ptr-aliasS": pas, "ptr-native": &s, "ptrptr-aliasS": ppas} {
			got, ok := stackage.ConvertStack(x)
			if !ok || got != s {
				v = violf("Convert/"+name, "ConvertStack(%s) = (%s,%v), want the underlying instance", name, identOf(got), ok)
				return
			}
		}
		cd := stackage.Cond("k", stackage.Eq, probe)
		ac, acs := MyCond(cd), MyCondS(cd)
		for name, x := range map[string]any{"native": cd, "alias": ac, "aliasS": acs, "ptr-alias": &ac, "ptr-aliasS": &acs, "ptr-native": &cd} {
			got, ok := stackage.ConvertCondition(x)
			if !ok || got != cd {
				v = violf("Convert/cond-"+name, "ConvertCondition(%s) = (%s,%v), want the underlying instance", name, identOf(got), ok)
				return
			}
		}
		var nilAlias *MyStack
		var nilAliasS *MyStackS
		var nilStack *stackage.Stack
		var nilCond *stackage.Condition
		var nilCondAlias *MyCond
		var nilpp **MyStack
		var nilInt *int
		negatives := map[string]any{"untyped-nil": nil, "typed-nil-ptr-alias": nilAlias, "typed-nil-ptr-aliasS": nilAliasS, "typed-nil-ptr-stack": nilStack,
			"typed-nil-ptr-cond": nilCond, "typed-nil-ptr-condalias": nilCondAlias, "typed-nil-ptrptr": nilpp, "typed-nil-ptr-int": nilInt,
			"zero-alias": MyStack{}, "zero-aliasS": MyStackS{}, "zero-condalias": MyCond{}, "zero-condaliasS": MyCondS{},
			"int": 5, "string": "x", "struct": struct{ A int }{1}, "slice": []any{"AND"}, "func": func() {}}
		for name, x := range negatives {
			got, ok := stackage.ConvertStack(x)
			if ok || !got.IsZero() {
				v = violf("Convert/"+name, "ConvertStack(%s) = (%s,%v), want (zero,false)", name, identOf(got), ok)
				return
			}
			gc, okc := stackage.ConvertCondition(x)
			if okc || !gc.IsZero() {
				v = violf("Convert/cond-"+name, "ConvertCondition(%s) = (%s,%v), want (zero,false)", name, identOf(gc), okc)
				return
			}
		}
		// the *other* package type is unrelated
		if got, ok := stackage.ConvertStack(cd); ok || !got.IsZero() {
			v = violf("Convert/condition-as-stack", "ConvertStack(Condition) = (%s,%v)", identOf(got), ok)
			return
		}
		if got, ok := stackage.ConvertCondition(s); ok || !got.IsZero() {
			v = violf("Convert/stack-as-condition", "ConvertCondition(Stack) = (%s,%v)", identOf(got), ok)
			return
		}
		st.Class("converter-probes")
	})
	if p != "" {
		return violf("Convert/panic", "a converter panicked: %s", p)
	}
	return v
}

func c12TreeGen(tier Tier) TreeGen {
	g := TreeGen{
		MaxDepth: 3, MaxWidth: 4, Budget: 24,
		Kinds:     []string{"AND", "OR", "NOT", "LIST", "BASIC", "AND", "OR"},
		RootKinds: []string{"AND", "OR", "LIST", "NOT"},
		Leaf:      func(t *rapid.T) Val { return genPrimVal(t, true, false) },
		Conds:     true, CondExprStack: true, CondExprCond: true, InvalidConds: true,
		Options: true, Wraps: true, NilLeaves: true, EmptyStacks: true, IndexOpts: true, Caps: true, FIFOOpt: true, DeepChains: true, Ambient: true, Pasts: true, WideRuns: true, NoNestAfter: true, ReadOnlyNodes: true, EqPolicies: true,
	}
	if tier.Thorough {
		g.MaxDepth, g.MaxWidth, g.Budget = 4, 5, 36
	}
	return g
}

func genC12(t *rapid.T, tier Tier) C12Case {
	c := C12Case{Root: c12TreeGen(tier).Draw(t), Probe: rapid.IntRange(0, 29).Draw(t, "probe")}
	maxW := 0
	c.Root.Walk(func(n Node, d int) {
		if len(n.Elems) > maxW {
			maxW = len(n.Elems)
		}
	})
	for i := 0; i < 15; i++ {
		if rapid.Bool().Draw(t, "structured") {
			c.Paths = append(c.Paths, genPathFor(t, c.Root, maxW))
			continue
		}
		n := rapid.IntRange(1, 4).Draw(t, "plen")
		var p []int
		for j := 0; j < n; j++ {
			p = append(p, rapid.IntRange(-1, maxW).Draw(t, "idx"))
		}
		c.Paths = append(c.Paths, p)
	}
	return c
}

func init() {
	Register(Def[C12Case]{
		ID: "C12",
		Rule: "rapid-generated description D (stacks of all kinds with presentation/index options, Conditions with primitive/Stack/Condition expressions, nil leaves) plus a wrap assignment W giving every nested Stack/Condition one of {native, alias without String, alias with a delegating String, alias with a String of its own that says something else, pointer to any of these}; " +
			"Build(D, all native) is the reference, Build(D, W) the subject. Differential oracle: String, IsEqual (both directions, subject-subject, alias/pointer as the argument), Unmarshal, 15 Traverse paths, IsNesting and Condition.Len/String at every node, Transfer (alias destination) and Defrag must be indistinguishable; " +
			"ConvertStack/ConvertCondition return the underlying instance for 13 positive forms and (zero,false) without panic for 19 negative forms. non-trivial = W wraps at least one node at depth>=1 non-natively; distinct = distinct case JSON",
		Gen: genC12,
		Run: runC12,
		Floors: map[string]float64{"isequal-decided-by-a-nested-closure": 0.03, "cond-expr-alias-without-String": 0.02, "cond-expr-alias-with-String": 0.02, "cond-expr-pointer-to-alias": 0.02, "stack-pointer-to-alias": 0.1,
			"alias-inside-alias": 0.05, "cond-alias-without-String": 0.05, "converter-probes": 0.9, "cond-expr-alias-with-divergent-String": 0.01, "stack-alias-with-divergent-String": 0.05},
		Assumptions: []string{"ConvertCondition(Condition{}) on the native zero value is not asserted (the statement lists nil, zero aliases and unrelated types)"},
	})
}
