package props

// C01 — ordered-list semantics under any operation history.

import (
	"fmt"

	stackage "github.com/JesseCoretta/go-stackage"
	"pgregory.net/rapid"
)

type C01Op struct {
	Op   string `json:"op"`             // push pop insert remove replace swap reverse reset fifo
	Nils []bool `json:"nils,omitempty"` // push: one entry per value, true = nil
	A    int    `json:"a,omitempty"`    // raw index (mapped onto the current state)
	B    int    `json:"b,omitempty"`
	Nil  bool   `json:"nil,omitempty"` // insert/replace: offer nil
}

type C01Case struct {
	Kind   string  `json:"kind"`
	Cap    int     `json:"cap"`
	FIFO   bool    `json:"fifo"`
	NegIdx bool    `json:"negidx"`
	FwdIdx bool    `json:"fwdidx"`
	Amb    int     `json:"amb,omitempty"` // ambient neutral settings (build.go AmbXxx)
	Init   int     `json:"init"`          // number of values pushed one by one before the program
	Ops    []C01Op `json:"ops"`
}

var stackKinds = []string{"AND", "OR", "NOT", "LIST", "BASIC"}

// guard runs f and reports a panic as a string ("" = returned normally).
func guard(f func()) (p string) {
	defer func() {
		if r := recover(); r != nil {
			p = fmt.Sprint(r)
		}
	}()
	f()
	return ""
}

func posMod(raw, n int) int {
	if n <= 0 {
		return 0
	}
	r := raw % n
	if r < 0 {
		r += n
	}
	return r
}

func compareLen(s stackage.Stack, m *ListModel) *Violation {
	if s.Len() != m.Len() {
		return violf("drain/len", "during a drain Len()=%d, model %d", s.Len(), m.Len())
	}
	return nil
}

// idxOpts tells compareContent which index options the stack under test has (C01 sets it per case).
var idxOpts struct{ neg, fwd bool }

// compareContent checks Len / IsEmpty / Index* / Front / Back against the model.
func compareContent(s stackage.Stack, m *ListModel, where string) *Violation {
	if got := s.Len(); got != m.Len() {
		return violf(where+"/len", "%s: Len()=%d, model %d (model content %v)", where, got, m.Len(), m.Elems)
	}
	if got := s.IsEmpty(); got != (m.Len() == 0) {
		return violf(where+"/isempty", "%s: IsEmpty()=%v with model length %d", where, got, m.Len())
	}
	for i, want := range m.Elems {
		got, ok := s.Index(i)
		if idxOpts.neg {
			// the translated form must address the same position
			if g2, ok2 := s.Index(i - len(m.Elems)); g2 != got || ok2 != ok {
				return violf(where+"/index-negative", "%s: Index(%d)=(%#v,%v) but Index(%d)=(%#v,%v) with negative indices on", where, i, got, ok, i-len(m.Elems), g2, ok2)
			}
		}
		if idxOpts.fwd && i == len(m.Elems)-1 {
			if g2, ok2 := s.Index(i + 7); g2 != got || ok2 != ok {
				return violf(where+"/index-forward", "%s: Index(%d)=(%#v,%v) but Index(%d)=(%#v,%v) with forward indices on", where, i, got, ok, i+7, g2, ok2)
			}
		}
		if got != want {
			return violf(where+"/index", "%s: Index(%d)=%#v, model %#v (model content %v)", where, i, got, want, m.Elems)
		}
		if msg := probeIntact(got); msg != "" {
			return violf("stored-value-modified", "%s: an operation on the holding stack changed a value stored in it: %s", where, msg)
		}
		if ok != (want != nil) {
			return violf(where+"/indexflag", "%s: Index(%d) flag=%v for value %#v", where, i, ok, want)
		}
	}
	// Front/Back: LIFO front = right end, back = left end; FIFO the other way round.
	// Lenient when the element at that end is nil (docs silent): (nil,false) or
	// the nearest non-nil element from that end.
	check := func(name string, got any, ok bool, fromRight bool) *Violation {
		n := m.Len()
		if n == 0 {
			if got != nil || ok {
				return violf(where+"/"+name, "%s: %s()=(%#v,%v) on empty stack", where, name, got, ok)
			}
			return nil
		}
		end := 0
		if fromRight {
			end = n - 1
		}
		if m.Elems[end] != nil {
			if got != m.Elems[end] || !ok {
				return violf(where+"/"+name, "%s: %s()=(%#v,%v), model end element %#v (content %v)", where, name, got, ok, m.Elems[end], m.Elems)
			}
			return nil
		}
		// nil at the end: accept (nil,false) or nearest non-nil
		if got == nil && !ok {
			return nil
		}
		var nearest any
		if fromRight {
			for i := n - 1; i >= 0; i-- {
				if m.Elems[i] != nil {
					nearest = m.Elems[i]
					break
				}
			}
		} else {
			for i := 0; i < n; i++ {
				if m.Elems[i] != nil {
					nearest = m.Elems[i]
					break
				}
			}
		}
		if nearest != nil && got == nearest && ok {
			return nil
		}
		return violf(where+"/"+name, "%s: %s()=(%#v,%v) with nil at that end; content %v", where, name, got, ok, m.Elems)
	}
	fv, fok := s.Front()
	if v := check("Front", fv, fok, !m.FIFO); v != nil {
		return v
	}
	bv, bok := s.Back()
	if v := check("Back", bv, bok, m.FIFO); v != nil {
		return v
	}
	return nil
}

func runC01(c C01Case) (st Stats, err error) {
	idxOpts.neg, idxOpts.fwd = c.NegIdx, c.FwdIdx
	defer func() { idxOpts.neg, idxOpts.fwd = false, false }()
	var s stackage.Stack
	m := &ListModel{Cap: c.Cap, FIFO: c.FIFO}
	tag := 0
	next := func(isNil bool) any {
		if isNil {
			return nil
		}
		tag++
		return tagValueP(tag)
	}
	if p := guard(func() {
		s = newStackOfKind(c.Kind, c.Cap)
		if c.FIFO {
			s.SetFIFO(true)
		}
		if c.NegIdx {
			s.SetNegativeIndices(true)
		}
		if c.FwdIdx {
			s.SetForwardIndices(true)
		}
		ApplyAmbient(s, c.Amb&^AmbPushOK)
		for i := 0; i < c.Init; i++ {
			v := next(false)
			s.Push(v)
			m.Push(v)
		}
	}); p != "" {
		return st, violf("setup/panic", "setup panicked: %s", p)
	}
	if v := compareContent(s, m, "init"); v != nil {
		return st, v
	}

	kinds := map[string]bool{}
	positionalOnLen2 := false
	lastPopFIFO := false
	wantCap := -1
	if c.Cap > 0 {
		wantCap = c.Cap
	}

	for i, op := range c.Ops {
		where := op.Op
		st.Sub++
		var v *Violation
		n := m.Len()
		p := guard(func() {
			switch op.Op {
			case "push":
				vals := make([]any, len(op.Nils))
				for k, isNil := range op.Nils {
					vals[k] = next(isNil)
					if isNil {
						st.Class("nil-push")
					}
				}
				if len(op.Nils) >= 9 {
					st.Class("bulk-push")
				}
				m.Push(vals...)
				s.Push(vals...)
				if m.Full() {
					st.Class("cap-reached")
				}
			case "popn":
				// drain op.A elements one by one, comparing each
				for k := 0; k < op.A && v == nil; k++ {
					want, existed := m.Pop()
					got, ok := s.Pop()
					if got != want || ok != (existed && want != nil) {
						v = violf("pop/value", "Pop #%d of a drain returned (%#v,%v), model (%#v,%v)", k, got, ok, want, existed && want != nil)
					}
					if vv := compareLen(s, m); vv != nil && v == nil {
						v = vv
					}
				}
				st.Class("drain")
			case "pop":
				want, existed := m.Pop()
				got, ok := s.Pop()
				if !existed {
					if got != nil || ok {
						v = violf("pop/empty", "Pop on empty returned (%#v,%v)", got, ok)
					}
					return
				}
				if got != want {
					v = violf("pop/value", "Pop returned %#v, model %#v", got, want)
				} else if want != nil && !ok {
					v = violf("pop/flag", "Pop returned ok=false for %#v", want)
				} else if want == nil && ok {
					v = violf("pop/flag", "Pop returned ok=true for a nil element")
				}
				lastPopFIFO = m.FIFO
				return
			case "insert":
				pos := posMod(op.A, n+5) - 2 // -2 .. n+2
				val := next(op.Nil)
				want := m.Insert(val, pos)
				got := s.Insert(val, pos)
				if got != want {
					v = violf("insert/result", "Insert(%#v,%d) on length %d returned %v, model %v", val, pos, n, got, want)
				}
				switch {
				case pos <= 0:
					st.Class("insert@0")
				case pos >= n:
					st.Class("insert@>=len")
				case pos == n-1:
					st.Class("insert@len-1")
				default:
					st.Class("insert@mid")
				}
				if lastPopFIFO {
					st.Class("fifo-pop-then-positional")
				}
			case "remove":
				if n == 0 {
					return
				}
				pos := posMod(op.A, n)
				if m.Elems[pos] == nil {
					// lenient: fail without change, or remove the nil slot
					got, ok := s.Remove(pos)
					if s.Len() == n-1 {
						m.Remove(pos)
					}
					if got != nil || (ok && s.Len() == n) {
						v = violf("remove/nil-slot", "Remove(%d) of a nil slot returned (%#v,%v)", pos, got, ok)
					}
					st.Class("remove-nil-slot")
					return
				}
				want := m.Remove(pos)
				// with the index options on, the same position may be addressed in its translated form
				arg := pos
				switch {
				case c.NegIdx && op.B%3 == 1:
					arg = pos - n // -1 .. -n
					st.Class("remove-via-negative-index")
				case c.FwdIdx && pos == n-1 && op.B%3 == 2:
					arg = n + op.B // oversize: addresses the last element
					st.Class("remove-via-forward-index")
				}
				got, ok := s.Remove(arg)
				if got != want || !ok {
					v = violf("remove/result", "Remove(%d) [position %d of %d] returned (%#v,%v), model (%#v,true)", arg, pos, n, got, ok, want)
				}
				if lastPopFIFO {
					st.Class("fifo-pop-then-positional")
				}
			case "replace":
				if n == 0 {
					return
				}
				pos := posMod(op.A, n)
				val := next(op.Nil)
				want := m.Replace(val, pos)
				got := s.Replace(val, pos)
				if got != want {
					v = violf("replace/result", "Replace(%#v,%d) returned %v, model %v", val, pos, got, want)
				}
			case "swap":
				if n == 0 {
					return
				}
				a, b := posMod(op.A, n), posMod(op.B, n)
				m.Swap(a, b)
				s.Swap(a, b)
			case "reverse":
				m.Reverse()
				s.Reverse()
				if n%2 == 0 {
					st.Class("reverse-even")
				} else {
					st.Class("reverse-odd")
				}
			case "reset":
				if m.HasNil() {
					st.Class("reset-with-nil")
					where = "reset-has-nil"
				}
				m.Reset()
				s.Reset()
			case "fifo":
				m.FIFO = true
				s.SetFIFO(true)
			case "unfifo":
				// "once you go FIFO, you cannot go back": SetFIFO(false) never changes the model
				s.SetFIFO(false)
				if m.FIFO {
					st.Class("setfifo-false-after-fifo")
				}
				if s.IsFIFO() != m.FIFO {
					v = violf("unfifo/isfifo", "after SetFIFO(false) IsFIFO()=%v, the stack had FIFO mode %v before (the switch is one-way)", s.IsFIFO(), m.FIFO)
				}
			}
		})
		if p != "" {
			return st, violf(op.Op+"/panic", "step %d %s panicked: %s", i, op.Op, p)
		}
		if v != nil {
			v.Msg = fmt.Sprintf("step %d: %s", i, v.Msg)
			return st, v
		}
		if op.Op != "pop" {
			// a pop stays "the last pop" only for the directly following step
			if op.Op != "insert" && op.Op != "remove" {
				lastPopFIFO = false
			}
		}
		if v := compareContent(s, m, where); v != nil {
			v.Msg = fmt.Sprintf("after step %d (%+v): %s", i, op, v.Msg)
			return st, v
		}
		if s.Kind() != c.Kind || s.Cap() != wantCap || s.IsFIFO() != m.FIFO || !s.IsInit() {
			return st, violf(op.Op+"/config", "after step %d %s: Kind=%q Cap=%d IsFIFO=%v IsInit=%v; want %q %d %v true",
				i, op.Op, s.Kind(), s.Cap(), s.IsFIFO(), s.IsInit(), c.Kind, wantCap, m.FIFO)
		}
		switch op.Op {
		case "push", "pop", "insert", "remove", "replace", "swap", "reverse", "reset":
			kinds[op.Op] = true
		case "popn":
			kinds["pop"] = true
		}
		switch op.Op {
		case "insert", "remove", "replace", "swap":
			if n >= 2 {
				positionalOnLen2 = true
			}
		}
	}
	st.NonTrivial = len(kinds) >= 2 && positionalOnLen2
	return st, nil
}

func genC01(t *rapid.T, tier Tier) C01Case {
	maxOps := 40
	if tier.Thorough {
		maxOps = 80
	}
	c := C01Case{
		Kind:   rapid.SampledFrom(stackKinds).Draw(t, "kind"),
		FIFO:   rapid.Bool().Draw(t, "fifo"),
		NegIdx: rapid.Bool().Draw(t, "negidx"),
		FwdIdx: rapid.Bool().Draw(t, "fwdidx"),
		Init:   rapid.IntRange(0, 4).Draw(t, "init"),
		Amb:    drawAmbient(t, false),
	}
	if rapid.Bool().Draw(t, "hascap") {
		c.Cap = rapid.IntRange(1, 6).Draw(t, "cap")
	}
	hugeCap := rapid.IntRange(0, 79).Draw(t, "hugecap?") == 0
	if hugeCap {
		// a capacity around a power of two, and a history that pushes right up to it
		c.Cap = rapid.SampledFrom([]int{255, 256, 257, 4095, 4096, 4097, 5000}).Draw(t, "hugecap")
		maxOps = 4
	}
	ops := []string{"push", "push", "push", "pop", "insert", "insert", "remove", "replace", "swap", "reverse", "reset", "fifo", "popn", "unfifo"}
	n := rapid.IntRange(1, maxOps).Draw(t, "nops")
	if hugeCap {
		fill := C01Op{Op: "push"}
		for j := 0; j < c.Cap+3; j++ {
			fill.Nils = append(fill.Nils, false)
		}
		c.Ops = append(c.Ops, fill)
	}
	for i := 0; i < n; i++ {
		o := C01Op{Op: rapid.SampledFrom(ops).Draw(t, "op")}
		switch o.Op {
		case "popn":
			o.A = rapid.IntRange(2, 30).Draw(t, "drain")
			if rapid.IntRange(0, 9).Draw(t, "bigdrain?") == 0 {
				o.A = rapid.IntRange(200, 600).Draw(t, "bigdrain")
			}
		case "push":
			k := rapid.IntRange(0, 4).Draw(t, "batch")
			if rapid.IntRange(0, 7).Draw(t, "bulk?") == 0 {
				k = rapid.IntRange(9, 70).Draw(t, "bulk") // past the allocator's growth steps
				if rapid.IntRange(0, 5).Draw(t, "huge?") == 0 {
					k = rapid.IntRange(250, 600).Draw(t, "huge") // past one byte's worth of positions
				}
			}
			for j := 0; j < k; j++ {
				o.Nils = append(o.Nils, rapid.IntRange(0, 99).Draw(t, "nil?") < 15)
			}
		case "insert", "replace":
			o.A = rapid.IntRange(0, 40).Draw(t, "a")
			o.Nil = rapid.IntRange(0, 99).Draw(t, "nil?") < 7
		case "remove":
			o.A = rapid.IntRange(0, 40).Draw(t, "a")
			o.B = rapid.IntRange(0, 8).Draw(t, "form")
		case "swap":
			o.A = rapid.IntRange(0, 40).Draw(t, "a")
			o.B = rapid.IntRange(0, 40).Draw(t, "b")
		}
		c.Ops = append(c.Ops, o)
	}
	return c
}

func enumC01(tier Tier, yield func(C01Case)) {
	// all programs of length <= L over a reduced alphabet, on every configuration
	L := 3
	if tier.Thorough {
		L = 4
	}
	alphabet := []C01Op{
		{Op: "push", Nils: []bool{false}},
		{Op: "push", Nils: []bool{true}},
		{Op: "push", Nils: []bool{false, false}},
		{Op: "pop"},
		{Op: "insert", A: 2}, // pos 0
		{Op: "insert", A: 3}, // pos 1
		{Op: "insert", A: 1}, // pos -1
		{Op: "remove", A: 0},
		{Op: "remove", A: 1},
		{Op: "replace", A: 1},
		{Op: "swap", A: 0, B: 1},
		{Op: "reverse"},
		{Op: "reset"},
	}
	var rec func(prefix []C01Op, depth int, emit func([]C01Op))
	rec = func(prefix []C01Op, depth int, emit func([]C01Op)) {
		if len(prefix) > 0 {
			emit(prefix)
		}
		if depth == L {
			return
		}
		for _, a := range alphabet {
			rec(append(append([]C01Op{}, prefix...), a), depth+1, emit)
		}
	}
	for _, kind := range stackKinds {
		for _, fifo := range []bool{false, true} {
			for _, cp := range []int{0, 3} {
				for _, init := range []int{0, 3} {
					rec(nil, 0, func(p []C01Op) {
						yield(C01Case{Kind: kind, FIFO: fifo, Cap: cp, Init: init, Ops: p})
					})
				}
			}
		}
	}
}

func init() {
	Register(Def[C01Case]{
		ID: "C01",
		Rule: "rapid-generated operation programs (1..40/80 ops from push-batch (occasionally 9..70 values)/pop/drain/insert/remove/replace/swap/reverse/reset/setFIFO, raw indices mapped onto existing positions, " +
			"~15% nil pushes) x kind x FIFO x capacity x index options, compared step by step against an ordered-list model (Len, IsEmpty, Index of every position, Front, Back, return values, Kind/Cap/IsFIFO); " +
			"plus exhaustive enumeration of all programs up to length 3 (thorough: 4) over a 13-op alphabet on 40 configurations. " +
			"non-trivial = program has >=2 different mutator kinds and a positional op (insert/remove/replace/swap) executed on length >=2; distinct = distinct case JSON",
		Gen:      genC01,
		Run:      runC01,
		Enum:     enumC01,
		EnumNote: "all programs of length <=3 (quick) / <=4 (thorough) over 13 op shapes x 5 kinds x LIFO/FIFO x cap{none,3} x initial length{0,3}",
		Floors: map[string]float64{
			"nil-push": 0.01, "reset-with-nil": 0.01, "insert@0": 0.01, "insert@mid": 0.01, "insert@>=len": 0.01,
			"cap-reached": 0.01, "fifo-pop-then-positional": 0.01, "reverse-odd": 0.01, "reverse-even": 0.01, "remove-via-negative-index": 0.01, "remove-via-forward-index": 0.003, "bulk-push": 0.1, "drain": 0.1,
		},
		Assumptions: []string{"element values are distinct tagged ints/strings; composite values are covered by C05/C08",
			"Front/Back/Remove on a nil slot are compared leniently (docs silent), see DESIGN.md C01"},
	})
}
