package props

// C02 — String() renders the expression tree by one fixed compositional grammar.

import (
	"fmt"
	"unicode/utf8"

	"pgregory.net/rapid"
)

type C02Case struct {
	Root Node `json:"root"`
}

func isASCII(s string) bool {
	for i := 0; i < len(s); i++ {
		if s[i] >= utf8.RuneSelf {
			return false
		}
	}
	return true
}

func classifyC02(root Node, st *Stats) {
	nonDefault := false
	root.Walk(func(n Node, depth int) {
		switch n.T {
		case "stack":
			if n.Paren || n.Fold || n.NoPad || n.LeadOnce || n.Symbol != "" || n.Delim != "" || len(n.Encap) > 0 {
				nonDefault = true
			}
			if len(n.Encap) >= 2 {
				st.Class("encap-depth-2")
			}
			nested := 0
			for i, e := range n.Elems {
				if !e.IsLeaf() {
					nested++
				}
				if e.IsStack() && e.Kind == "NOT" {
					if e.Fold {
						st.Class("folded-nested-NOT")
					}
					if len(e.Elems) == 0 {
						st.Class("empty-nested-NOT")
					}
				}
				if e.IsStack() && len(e.Elems) == 0 {
					st.Class("empty-nested-stack")
				}
				if e.IsCond() && !condValid(e) && i > 0 && i < len(n.Elems)-1 {
					st.Class("invalid-cond-between-elements")
				}
				if e.IsLeaf() && e.Leaf.K == "str" {
					if e.Leaf.S == "" {
						if len(n.Encap) > 0 {
							st.Class("empty-leaf-encapsulated")
						} else {
							st.Class("empty-leaf-plain")
						}
					}
					if e.Leaf.S == " " {
						st.Class("blank-only-leaf")
					}
					if !isASCII(e.Leaf.S) && depth >= 1 {
						st.Class("non-ascii-leaf-nested")
					}
				}
			}
			if n.LeadOnce && nested > 0 {
				st.Class("lead-once-with-nested")
			}
			if n.Kind == "LIST" && n.Delim == "" && nested >= 2 {
				st.Class("LIST-nodelim-2-nested")
			}
			if n.Kind == "LIST" && n.Delim != "" {
				st.Class("LIST-delimited")
			}
			if n.Symbol != "" && n.Kind != "LIST" {
				st.Class("symbol")
			}
		case "cond":
			if n.Paren || n.NoPad || len(n.Encap) > 0 {
				nonDefault = true
			}
			if n.Expr != nil && n.Expr.IsStack() {
				st.Class("cond-with-stack-expr")
			}
		}
	})
	st.NonTrivial = root.Depth() >= 2 && nonDefault
}

func runC02(c C02Case) (st Stats, err error) {
	classifyC02(c.Root, &st)
	var got, got2, fmtS string
	if p := guard(func() {
		s := BuildStack(c.Root)
		got = s.String()
		got2 = s.String()
		fmtS = fmt.Sprintf("%s", s)
	}); p != "" {
		return st, violf("string/panic", "String() panicked on %s: %s", c.Root.Brief(), p)
	}
	want := RenderStack(c.Root)
	if !matchPattern(want, got) {
		key := "render"
		switch {
		case !isASCII(got) || !isASCII(want):
			key = "render/non-ascii"
		}
		return st, violf(key, "String()=%q\n    canonical rendering=%q\n    tree: %s", got, showPattern(want), c.Root.Brief())
	}
	if got2 != got {
		return st, violf("render/not-idempotent", "String() twice gave %q then %q", got, got2)
	}
	if fmtS != got {
		return st, violf("render/fmt", "fmt %%s gave %q, String() %q", fmtS, got)
	}
	return st, nil
}

func c02TreeGen(tier Tier) TreeGen {
	g := TreeGen{
		MaxDepth: 4, MaxWidth: 5, Budget: 40,
		Kinds:     []string{"AND", "OR", "NOT", "LIST", "AND", "OR", "NOT", "LIST", "BASIC"},
		RootKinds: []string{"AND", "OR", "NOT", "LIST"},
		Leaf:      func(t *rapid.T) Val { return genPrimVal(t, true, true) },
		Conds:     true, CondExprStack: true, CondExprCond: true, InvalidConds: true,
		Options: true, EmptyStacks: true, Caps: true, IndexOpts: true, FIFOOpt: true, DeepChains: true, Ambient: true, Pasts: true, WideRuns: true, NoNestAfter: true, ReadOnlyNodes: true,
	}
	if tier.Thorough {
		g.MaxDepth, g.MaxWidth, g.Budget = 6, 8, 60
	}
	return g
}

func genC02(t *rapid.T, tier Tier) C02Case {
	return C02Case{Root: c02TreeGen(tier).Draw(t)}
}

func init() {
	Register(Def[C02Case]{
		ID: "C02",
		Rule: "rapid-generated trees (depth<=4/6, width<=5/8, <=40/60 nodes) of AND/OR/NOT/LIST stacks (BASIC nested), text/number/bool/stringer leaves (multi-byte UTF-8, embedded and edge blanks, tabs, empty string, label look-alikes, punctuation), " +
			"valid and invalid Conditions (expression leaf or stack), empty nested stacks; per node every combination of paren/fold/no-padding/lead-once/symbol/delimiter/0-2 encapsulation pairs. " +
			"Oracle: String() must match the pattern produced by an independent canonical renderer working on the tree description (optional-blank marker only at the documented lenient positions), " +
			"be idempotent and equal fmt %s. non-trivial = depth>=2 and >=1 non-default option on some node; distinct = distinct tree JSON",
		Gen: genC02,
		Run: runC02,
		Floors: map[string]float64{"non-ascii-leaf-nested": 0.05, "folded-nested-NOT": 0.02, "lead-once-with-nested": 0.05, "LIST-nodelim-2-nested": 0.01,
			"encap-depth-2": 0.03, "empty-leaf-plain": 0.02, "empty-leaf-encapsulated": 0.01, "empty-nested-NOT": 0.005, "blank-only-leaf": 0.005,
			"invalid-cond-between-elements": 0.005, "cond-with-stack-expr": 0.03},
		Assumptions: []string{"nil/struct/function leaves, zero-valued Conditions, non-blank whitespace at leaf ends and a NOT stack directly as a Condition expression are not generated (docs define no rendering)",
			"under padding, whether a blank separates a nested element from an adjacent delimiter/symbol prefix/nested element in lead-once and delimited-LIST mode is left open (optional-blank marker)"},
	})
}
