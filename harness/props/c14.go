package props

// C14 — user-supplied policies decide, exactly as documented.

import (
	"errors"
	"fmt"
	"reflect"
	"strings"

	stackage "github.com/JesseCoretta/go-stackage"
	"pgregory.net/rapid"
)

type C14Step struct {
	Op    string `json:"op"`              // push mode: push setpolicy clearpolicy pop clearerr ; closure mode: install remove
	Vals  []int  `json:"vals,omitempty"`  // push: value tags 0..9
	Table int    `json:"table,omitempty"` // setpolicy: bit i set => tag i is rejected
	Which string `json:"which,omitempty"` // closure mode: validity presentation equality marshal unmarshal evaluator
	Fail  bool   `json:"fail,omitempty"`  // closure returns an error (or, for presentation, the empty string)
	N     int    `json:"n,omitempty"`     // constant carried by the closure's result
	Form  int    `json:"form,omitempty"`  // remove: 0 = nil argument, 1 = no argument (where the setter is variadic)
}

type C14Case struct {
	Mode   string    `json:"mode"`   // push | closures
	Target string    `json:"target"` // stack | cond   (closures mode)
	Kind   string    `json:"kind"`
	Cap    int       `json:"cap"`
	Fold   bool      `json:"fold,omitempty"` // closures mode, Stack target: the case-folding option is on (the operator word renders lower-case; nothing else may change)
	Expr   int       `json:"expr,omitempty"` // Condition target: 0 leaf expression; 1 a Stack; 2 a Stack with its own rejecting validity closure; 3 a Stack with rejecting validity+equality closures and a presentation closure
	Steps  []C14Step `json:"steps"`
	// closures mode: presentation options of the receiver (and its comparison partners), all of which concern the
	// BUILT-IN rendering only: bit 0 parenthetical, bit 1 no-padding, bit 2 encapsulation, bit 3 no-nesting,
	// bit 4 (stacks) lead-once. An installed presentation closure's result is returned as it is.
	Opts int `json:"opts,omitempty"`
}

// c14Val: tags 0..7 are strings/ints; 8 is a native Stack, 9 a Stack alias (fresh instance per call, ID = its tag).
func c14Val(tag int) any {
	switch tag {
	case 8:
		return stackage.Or().SetID("tag8").Push("in")
	case 9:
		return MyStack(stackage.And().SetID("tag9").Push("in"))
	}
	if tag%2 == 0 {
		return "t" + itoa(tag)
	}
	return tag
}

// c14TagOf recovers the tag of a value offered to a policy.
func c14TagOf(x any) int {
	switch tv := x.(type) {
	case int:
		return tv
	case string:
		n := 0
		fmt.Sscanf(tv, "t%d", &n)
		return n
	}
	if s, ok := stackage.ConvertStack(x); ok {
		if s.ID() == "tag8" {
			return 8
		}
		return 9
	}
	return -1
}

func runC14(c C14Case) (Stats, error) {
	if c.Mode == "push" {
		return runC14Push(c)
	}
	return runC14Closures(c)
}

func runC14Push(c C14Case) (st Stats, err error) {
	var s stackage.Stack
	m := &ListModel{Cap: c.Cap}
	if p := guard(func() { s = newStackOfKind(c.Kind, c.Cap) }); p != "" {
		return st, violf("setup/panic", "%s", p)
	}
	var log []any    // values the installed policy was consulted with, since the last check
	var curErr error // model of Err()
	var polErr error // the error the installed policy returns
	var rejected map[int]bool
	installed := false
	noNest := false
	everRejected := map[any]bool{}
	npol := 0

	for i, step := range c.Steps {
		st.Sub++
		var v *Violation
		p := guard(func() {
			switch step.Op {
			case "setpolicy":
				npol++
				rejected = map[int]bool{}
				for b := 0; b < 10; b++ {
					if step.Table&(1<<b) != 0 {
						rejected[b] = true
					}
				}
				polErr = errors.New("rejected by policy #" + itoa(npol))
				myErr, myRej := polErr, rejected
				s.SetPushPolicy(func(x ...any) error {
					if len(x) != 1 {
						log = append(log, fmt.Sprintf("<%d args>", len(x)))
						return nil
					}
					log = append(log, x[0])
					if myRej[c14TagOf(x[0])] {
						return myErr
					}
					return nil
				})
				installed = true
			case "clearpolicy":
				s.SetPushPolicy(nil)
				installed = false
				st.Class("policy-removed")
			case "nonest":
				switch step.Table % 3 {
				case 0:
					noNest = true
					s.SetNoNesting(true)
				case 1:
					noNest = false
					s.SetNoNesting(false)
				default:
					noNest = !noNest
					s.SetNoNesting()
				}
			case "clearerr":
				s.SetErr(nil)
				curErr = nil
			case "pop":
				m.Pop()
				s.Pop()
			case "remove": // (the backing array is rebuilt: the room that "remains" is the configured one all the same)
				if m.Len() > 0 {
					pos := posMod(step.Table, m.Len())
					m.Remove(pos)
					s.Remove(pos)
					st.Class("history:remove")
				}
			case "reset":
				m.Reset()
				s.Reset()
				st.Class("history:reset")
			case "insertfront":
				if !m.Full() {
					x := "ins" + itoa(i)
					if m.Insert(x, 0) {
						s.Insert(x, 0)
						st.Class("history:insert-front")
					}
				}
			case "push":
				log = nil
				var wantLog []any
				accepted, rejectedAt := 0, -1
				fullMid := false
				vals := make([]any, len(step.Vals))
				for j, tag := range step.Vals {
					vals[j] = c14Val(tag)
				}
				for j, tag := range step.Vals {
					if m.Full() {
						if installed && j > 0 {
							fullMid = true
						}
						continue
					}
					if installed {
						// with a policy installed the no-nesting option has no say (documented): the policy is consulted for every value
						wantLog = append(wantLog, vals[j])
						if rejected[tag] {
							curErr = polErr
							rejectedAt = j
							break
						}
						if noNest && tag >= 8 {
							st.Class("policy-decides-despite-no-nesting")
						}
					} else if noNest && tag >= 8 {
						continue // no policy: the option silently skips Stacks
					}
					m.Elems = append(m.Elems, vals[j])
					accepted++
				}
				s.Push(vals...)
				if !reflect.DeepEqual(log, wantLog) && !(len(log) == 0 && len(wantLog) == 0) {
					v = violf("push/policy-log", "Push(%v): policy consulted with %v, model %v (capacity %d, model content before+after %v)", vals, log, wantLog, c.Cap, m.Elems)
					return
				}
				if rejectedAt >= 0 && accepted > 0 && rejectedAt < len(vals)-1 {
					st.NonTrivial = true
					st.Class("reject-after-accept-before-more")
				}
				if fullMid {
					st.NonTrivial = true
					st.Class("capacity-hit-mid-batch-with-policy")
				}
				if !installed {
					st.Class("push-without-policy")
				}
			}
		})
		if p != "" {
			return st, violf(step.Op+"/panic", "step %d (%+v) panicked: %s", i, step, p)
		}
		if v != nil {
			v.Msg = fmt.Sprintf("step %d: %s", i, v.Msg)
			return st, v
		}
		if vv := compareContent(s, m, "push-policy/"+step.Op); vv != nil {
			vv.Msg = fmt.Sprintf("after step %d (%+v): %s", i, step, vv.Msg)
			return st, vv
		}
		if got := s.Err(); got != curErr {
			return st, violf("push/err", "after step %d (%+v): Err()=%v, model %v", i, step, got, curErr)
		}
	}
	_ = everRejected
	return st, nil
}

func firstString(u []any) (string, bool) {
	if len(u) == 0 {
		return "", false
	}
	s, ok := u[0].(string)
	return s, ok
}

// c14Expr: the expression of the Condition target (fresh instance per call).
func c14Expr(form int) any {
	switch form {
	case 1:
		return stackage.Or().Push("a", "b")
	case 2:
		return stackage.Or().Push("a", "b").SetValidityPolicy(func(...any) error { return fmt.Errorf("nested stack rejects itself") })
	case 3:
		return stackage.And().Push("a", "b").
			SetValidityPolicy(func(...any) error { return fmt.Errorf("nested stack rejects itself") }).
			SetEqualityPolicy(func(any, any) error { return fmt.Errorf("nested stack equals nothing") }).
			SetPresentationPolicy(func(...any) string { return "NESTED" })
	}
	return "v"
}

// ---- closures mode ---------------------------------------------------------------------

type c14Closure struct {
	fail  bool
	n     int
	err   error
	calls int
}

func runC14Closures(c C14Case) (st Stats, err error) {
	installed := map[string]*c14Closure{}
	basicPP := false // a presentation policy was offered to a BASIC stack

	if c.Target == "cond" {
		var cd, twin, other stackage.Condition
		if p := guard(func() {
			cd = stackage.Cond("kw", stackage.Eq, c14Expr(c.Expr))
			twin = stackage.Cond("kw", stackage.Eq, c14Expr(c.Expr))
			other = stackage.Cond("kw", stackage.Ne, c14Expr(c.Expr))
			// the ARGUMENTS carry equality closures of their own, each saying the opposite of the truth: whose
			// closure decides is the receiver's business alone
			twin.SetEqualityPolicy(func(any, any) error { return fmt.Errorf("the argument's closure says: different") })
			other.SetEqualityPolicy(func(any, any) error { return nil })
			for _, x := range []stackage.Condition{cd, twin, other} {
				if c.Opts&1 != 0 {
					x.Paren(true)
				}
				if c.Opts&2 != 0 {
					x.NoPadding(true)
				}
				if c.Opts&4 != 0 {
					x.Encap(`"`)
				}
				if c.Opts&8 != 0 {
					x.SetNoNesting(true)
				}
			}
		}); p != "" {
			return st, violf("setup/panic", "%s", p)
		}
		if c.Opts != 0 {
			st.Class("receiver-with-presentation-options")
		}
		if c.Expr > 0 {
			st.Class(fmt.Sprintf("cond-expression-form-%d", c.Expr))
		}
		// what the built-in behaviour does with a nested Stack that carries closures of its own is
		// nobody's statement: with such an expression only the installed-closure clauses are asserted
		builtinKnown := c.Expr <= 1
		builtinStrKnown := builtinKnown && c.Opts == 0 // (the built-in spelling under options is C06's subject)
		builtinStr, builtinExpr := "kw = v", any("v")
		if c.Expr == 1 {
			builtinStr = "kw = a OR b"
		}
		check := func(where string) *Violation {
			var v *Violation
			p := guard(func() {
				// Valid
				got := cd.Valid()
				if cl := installed["validity"]; cl != nil {
					if cl.fail && got != cl.err {
						v = violf("Condition.Valid/closure", "%s: Valid()=%v, want the closure's error %v", where, got, cl.err)
						return
					}
					if !cl.fail && got != nil {
						v = violf("Condition.Valid/closure", "%s: Valid()=%v although the closure returned nil", where, got)
						return
					}
				} else if got != nil && builtinKnown {
					v = violf("Condition.Valid/builtin", "%s: Valid()=%v on a valid condition without closure", where, got)
					return
				}
				valid := got == nil
				// String
				str := cd.String()
				want := builtinStr
				strKnown := builtinStrKnown
				if cl := installed["presentation"]; cl != nil {
					strKnown = true
					want = presOut(cl.n)
					if cl.fail {
						want = ""
					}
				}
				if !valid {
					want = ""
					strKnown = true
				}
				if strKnown && str != want {
					v = violf("Condition.String", "%s: String()=%q, want %q (installed %v)", where, str, want, keysOf(installed))
					return
				}
				// IsEqual
				e1, e2 := cd.IsEqual(twin), cd.IsEqual(other)
				if cl := installed["equality"]; cl != nil {
					if (cl.fail && (e1 != cl.err || e2 != cl.err)) || (!cl.fail && (e1 != nil || e2 != nil)) {
						v = violf("Condition.IsEqual/closure", "%s: IsEqual gave %v / %v, closure returns %v", where, e1, e2, cl.err)
						return
					}
					before := cl.calls
					if e3 := cd.IsEqual(cd); e3 != cl.err || cl.calls != before+1 {
						v = violf("Condition.IsEqual/closure/self", "%s: IsEqual(self)=%v with %d consultations; closure returns %v", where, e3, cl.calls-before, cl.err)
						return
					}
				} else if builtinKnown && (e1 != nil || e2 == nil) {
					v = violf("Condition.IsEqual/builtin", "%s: IsEqual(twin)=%v IsEqual(other)=%v without closure", where, e1, e2)
					return
				}
				// Unmarshal
				u, uerr := cd.Unmarshal()
				if cl := installed["unmarshal"]; cl != nil {
					if !reflect.DeepEqual(u, []any{"U", cl.n}) || uerr != cl.err {
						v = violf("Condition.Unmarshal/closure", "%s: Unmarshal()=(%v,%v), closure returns ([U %d],%v)", where, u, uerr, cl.n, cl.err)
						return
					}
				} else if c.Expr == 0 && (!reflect.DeepEqual(u, []any{"CONDITION", "kw", stackage.Operator(stackage.Eq), builtinExpr}) || uerr != nil) {
					v = violf("Condition.Unmarshal/builtin", "%s: Unmarshal()=(%#v,%v) without closure", where, u, uerr)
					return
				}
				// Evaluate
				ev, everr := cd.Evaluate(1, 2)
				if cl := installed["evaluator"]; cl != nil {
					if ev != cl.n || everr != cl.err {
						v = violf("Condition.Evaluate/closure", "%s: Evaluate()=(%v,%v), closure returns (%d,%v)", where, ev, everr, cl.n, cl.err)
						return
					}
				} else if ev != nil || everr == nil {
					v = violf("Condition.Evaluate/builtin", "%s: Evaluate()=(%v,%v) without evaluator", where, ev, everr)
					return
				}
			})
			if p != "" {
				return violf("Condition/panic", "%s: panicked: %s", where, p)
			}
			return v
		}
		if v := check("initial"); v != nil {
			return st, v
		}
		removedThenCalled := false
		for i, step := range c.Steps {
			st.Sub++
			cl := &c14Closure{fail: step.Fail, n: step.N}
			if step.Fail {
				cl.err = fmt.Errorf("closure %s #%d says no", step.Which, i)
			}
			p := guard(func() {
				switch step.Op {
				case "install":
					switch step.Which {
					case "validity":
						cd.SetValidityPolicy(func(...any) error { cl.calls++; return cl.err })
					case "presentation":
						cd.SetPresentationPolicy(func(...any) string {
							cl.calls++
							if cl.fail {
								return ""
							}
							return presOut(cl.n)
						})
					case "equality":
						cd.SetEqualityPolicy(func(a, b any) error { cl.calls++; return cl.err })
					case "unmarshal":
						cd.SetUnmarshaler(func(...any) ([]any, error) { cl.calls++; return []any{"U", cl.n}, cl.err })
					case "evaluator":
						cd.SetEvaluator(func(...any) (any, error) { cl.calls++; return cl.n, cl.err })
					default:
						return
					}
					installed[step.Which] = cl
				case "remove":
					if installed[step.Which] != nil {
						removedThenCalled = true
					}
					switch step.Which {
					case "validity":
						cd.SetValidityPolicy(nil)
					case "presentation":
						cd.SetPresentationPolicy(nil)
					case "equality":
						if step.Form == 0 {
							cd.SetEqualityPolicy(nil)
						} else {
							cd.SetEqualityPolicy()
						}
					case "unmarshal":
						if step.Form == 0 {
							cd.SetUnmarshaler(nil)
						} else {
							cd.SetUnmarshaler()
						}
					case "evaluator":
						cd.SetEvaluator(nil)
					default:
						return
					}
					delete(installed, step.Which)
				}
			})
			if p != "" {
				return st, violf("Condition."+step.Op+"/panic", "step %d (%+v) panicked: %s", i, step, p)
			}
			if v := check(fmt.Sprintf("after step %d (%+v)", i, step)); v != nil {
				return st, v
			}
		}
		st.Class("cond-closures")
		st.NonTrivial = removedThenCalled
		return st, nil
	}

	// ---- stack target
	var s, twin, other stackage.Stack
	if p := guard(func() {
		s = newStackOfKind(c.Kind, 0).Push("a", "b")
		twin = newStackOfKind(c.Kind, 0).Push("a", "b")
		other = newStackOfKind(c.Kind, 0).Push("a", "c")
		twin.SetEqualityPolicy(func(any, any) error { return fmt.Errorf("the argument's closure says: different") })
		other.SetEqualityPolicy(func(any, any) error { return nil })
		if c.Fold {
			s.SetFold(true)
			twin.SetFold(true)
			other.SetFold(true)
		}
		for _, x := range []stackage.Stack{s, twin, other} {
			if c.Opts&1 != 0 {
				x.Paren(true)
			}
			if c.Opts&2 != 0 {
				x.NoPadding(true)
			}
			if c.Opts&4 != 0 {
				x.Encap(`"`)
			}
			if c.Opts&8 != 0 {
				x.SetNoNesting(true)
			}
			if c.Opts&16 != 0 {
				x.LeadOnce(true)
			}
		}
		if c.Expr >= 2 {
			// a nested Stack (and a Condition holding one) that carry rejecting closures of their own:
			// the receiver's installed closures must still be the ones that decide
			for _, x := range []stackage.Stack{s, twin, other} {
				x.Push(c14Expr(c.Expr), stackage.Cond("k", stackage.Eq, c14Expr(c.Expr)))
			}
		}
	}); p != "" {
		return st, violf("setup/panic", "%s", p)
	}
	nestedClosures := c.Expr >= 2
	if nestedClosures {
		st.Class("stack-with-nested-closure-bearers")
	}
	builtinString := ""
	switch c.Kind {
	case "LIST":
		builtinString = "a b"
	case "BASIC":
		builtinString = ""
	default:
		builtinString = "a " + c.Kind + " b"
		if c.Fold {
			builtinString = "a " + strings.ToLower(c.Kind) + " b"
		}
	}
	check := func(where string) *Violation {
		var v *Violation
		p := guard(func() {
			got := s.Valid()
			valid := true
			if cl := installed["validity"]; cl != nil {
				if cl.fail != (got != nil) {
					v = violf("Stack.Valid/closure", "%s: Valid()=%v, closure returns %v", where, got, cl.err)
					return
				}
				valid = !cl.fail
			} else if got != nil && !nestedClosures {
				v = violf("Stack.Valid/builtin", "%s: Valid()=%v without closure", where, got)
				return
			} else if got != nil {
				valid = false
			}
			str := s.String()
			want := builtinString
			strKnown := !nestedClosures && c.Opts == 0
			if cl := installed["presentation"]; cl != nil && c.Kind != "BASIC" {
				strKnown = true
				want = presOut(cl.n)
				if cl.fail {
					want = ""
				}
			}
			if !valid || c.Kind == "BASIC" {
				want = ""
				strKnown = true
			}
			if strKnown && str != want {
				v = violf("Stack.String/"+c.Kind, "%s: String()=%q, want %q (installed %v)", where, str, want, keysOf(installed))
				return
			}
			if basicPP && s.Err() == nil {
				v = violf("Stack.SetPresentationPolicy/BASIC", "%s: a BASIC stack was offered a presentation policy but Err() is nil", where)
				return
			}
			e1, e2 := s.IsEqual(twin), s.IsEqual(other)
			if cl := installed["equality"]; cl != nil {
				if (cl.fail && (e1 != cl.err || e2 != cl.err)) || (!cl.fail && (e1 != nil || e2 != nil)) {
					v = violf("Stack.IsEqual/closure", "%s: IsEqual gave %v / %v, closure returns %v", where, e1, e2, cl.err)
					return
				}
				// the closure decides for every Stack argument, the receiver itself included
				before := cl.calls
				e3, e4 := s.IsEqual(s), s.IsEqual(MyStack(s))
				if e3 != cl.err || e4 != cl.err || cl.calls != before+2 {
					v = violf("Stack.IsEqual/closure/self", "%s: IsEqual(self)=%v IsEqual(alias of self)=%v with %d consultations; closure returns %v", where, e3, e4, cl.calls-before, cl.err)
					return
				}
			} else if !nestedClosures && (e1 != nil || e2 == nil) {
				v = violf("Stack.IsEqual/builtin", "%s: IsEqual(twin)=%v IsEqual(other)=%v without closure", where, e1, e2)
				return
			}
			u, uerr := s.Unmarshal()
			if cl := installed["unmarshal"]; cl != nil {
				if !reflect.DeepEqual(u, []any{"U", cl.n}) || uerr != cl.err {
					v = violf("Stack.Unmarshal/closure", "%s: Unmarshal()=(%v,%v), closure returns ([U %d],%v)", where, u, uerr, cl.n, cl.err)
					return
				}
			} else if lab, _ := firstString(u); !nestedClosures && (len(u) != 3 || !strings.EqualFold(lab, c.Kind) || !reflect.DeepEqual(u[1:], []any{"a", "b"}) || uerr != nil) {
				v = violf("Stack.Unmarshal/builtin", "%s: Unmarshal()=(%#v,%v) without closure", where, u, uerr)
				return
			}
			// Marshal on the initialised receiver
			n := s.Len()
			if cl := installed["marshal"]; cl != nil {
				// whatever is handed over (one argument at least), the closure's result is the answer
				for fi, input := range [][]any{{[]any{}}, {[]any{[]any{}}}, {[]any(nil)}, {[]any{"AND", "y"}}, {"junk"}, {nil}, {[]any{[]any{"OR", "z"}}}} {
					before := cl.calls
					if e := s.Marshal(input...); e != cl.err || s.Len() != n || cl.calls != before+1 {
						v = violf("Stack.Marshal/closure/input-form", "%s: Marshal(input form %d: %#v)=%v Len %d->%d with %d consultations; the installed closure returns %v", where, fi, input, e, n, s.Len(), cl.calls-before, cl.err)
						return
					}
				}
			}
			merr := s.Marshal("OR", "x")
			if cl := installed["marshal"]; cl != nil {
				if merr != cl.err || s.Len() != n {
					v = violf("Stack.Marshal/closure", "%s: Marshal()=%v Len %d->%d, closure returns %v", where, merr, n, s.Len(), cl.err)
					return
				}
			} else {
				if merr != nil || s.Len() != n+1 {
					v = violf("Stack.Marshal/builtin", "%s: Marshal()=%v Len %d->%d without closure", where, merr, n, s.Len())
					return
				}
				el, _ := s.Index(n)
				if es, ok := el.(stackage.Stack); !ok || es.Kind() != "OR" || es.Len() != 1 {
					v = violf("Stack.Marshal/builtin", "%s: Marshal appended %#v", where, el)
					return
				}
				s.Remove(n)
			}
		})
		if p != "" {
			return violf("Stack/panic", "%s: panicked: %s", where, p)
		}
		return v
	}
	if v := check("initial"); v != nil {
		return st, v
	}
	removedThenCalled := false
	for i, step := range c.Steps {
		st.Sub++
		cl := &c14Closure{fail: step.Fail, n: step.N}
		if step.Fail {
			cl.err = fmt.Errorf("closure %s #%d says no", step.Which, i)
		}
		p := guard(func() {
			switch step.Op {
			case "install":
				switch step.Which {
				case "validity":
					s.SetValidityPolicy(func(...any) error { cl.calls++; return cl.err })
				case "presentation":
					s.SetPresentationPolicy(func(...any) string {
						cl.calls++
						if cl.fail {
							return ""
						}
						return presOut(cl.n)
					})
					if c.Kind == "BASIC" {
						basicPP = true
						st.Class("basic-presentation-policy")
					}
				case "equality":
					s.SetEqualityPolicy(func(a, b any) error { cl.calls++; return cl.err })
				case "unmarshal":
					s.SetUnmarshaler(func(...any) ([]any, error) { cl.calls++; return []any{"U", cl.n}, cl.err })
				case "marshal":
					s.SetMarshaler(func(...any) error { cl.calls++; return cl.err })
				default:
					return
				}
				installed[step.Which] = cl
			case "remove":
				if installed[step.Which] != nil {
					removedThenCalled = true
				}
				switch step.Which {
				case "validity":
					s.SetValidityPolicy(nil)
				case "presentation":
					s.SetPresentationPolicy(nil)
				case "equality":
					if step.Form == 0 {
						s.SetEqualityPolicy(nil)
					} else {
						s.SetEqualityPolicy()
					}
				case "unmarshal":
					if step.Form == 0 {
						s.SetUnmarshaler(nil)
					} else {
						s.SetUnmarshaler()
					}
				case "marshal":
					if step.Form == 0 {
						s.SetMarshaler(nil)
					} else {
						s.SetMarshaler()
					}
				default:
					return
				}
				delete(installed, step.Which)
			}
		})
		if p != "" {
			return st, violf("Stack."+step.Op+"/panic", "step %d (%+v) panicked: %s", i, step, p)
		}
		if v := check(fmt.Sprintf("after step %d (%+v)", i, step)); v != nil {
			return st, v
		}
	}
	st.Class("stack-closures")
	st.NonTrivial = removedThenCalled
	return st, nil
}

func keysOf(m map[string]*c14Closure) []string {
	var out []string
	for _, k := range []string{"validity", "presentation", "equality", "marshal", "unmarshal", "evaluator"} {
		if m[k] != nil {
			out = append(out, k)
		}
	}
	return out
}

func genC14(t *rapid.T, tier Tier) C14Case {
	c := C14Case{Kind: rapid.SampledFrom(stackKinds).Draw(t, "kind")}
	if rapid.IntRange(0, 2).Draw(t, "mode") > 0 {
		c.Mode = "push"
		if rapid.Bool().Draw(t, "hascap") {
			c.Cap = rapid.IntRange(1, 6).Draw(t, "cap")
		}
		n := rapid.IntRange(1, 15).Draw(t, "nsteps")
		ops := []string{"push", "push", "push", "setpolicy", "setpolicy", "clearpolicy", "pop", "clearerr", "nonest", "remove", "reset", "insertfront"}
		// start with a policy most of the time
		if rapid.IntRange(0, 3).Draw(t, "startpol") > 0 {
			c.Steps = append(c.Steps, C14Step{Op: "setpolicy", Table: rapid.IntRange(0, 1023).Draw(t, "table")})
		}
		for i := 0; i < n; i++ {
			s := C14Step{Op: rapid.SampledFrom(ops).Draw(t, "op")}
			switch s.Op {
			case "push":
				k := rapid.IntRange(0, 6).Draw(t, "batch")
				for j := 0; j < k; j++ {
					s.Vals = append(s.Vals, rapid.IntRange(0, 9).Draw(t, "tag"))
				}
			case "setpolicy":
				s.Table = rapid.IntRange(0, 1023).Draw(t, "table")
			case "nonest":
				s.Table = rapid.IntRange(0, 2).Draw(t, "mode")
			case "remove":
				s.Table = rapid.IntRange(0, 9).Draw(t, "removeat")
			}
			c.Steps = append(c.Steps, s)
		}
		return c
	}
	c.Mode = "closures"
	c.Target = "stack"
	whiches := []string{"validity", "presentation", "equality", "marshal", "unmarshal"}
	if rapid.IntRange(0, 2).Draw(t, "cond") == 0 {
		c.Target = "cond"
		whiches = []string{"validity", "presentation", "equality", "unmarshal", "evaluator"}
		c.Expr = rapid.SampledFrom([]int{0, 0, 1, 2, 3}).Draw(t, "exprform")
		c.Fold = false
	} else if c.Fold = rapid.IntRange(0, 2).Draw(t, "fold") == 0; rapid.IntRange(0, 3).Draw(t, "nested-closures") == 0 {
		c.Expr = rapid.IntRange(2, 3).Draw(t, "nestedform")
	}
	if rapid.IntRange(0, 2).Draw(t, "opts?") == 0 {
		c.Opts = rapid.IntRange(1, 31).Draw(t, "opts")
		if c.Expr >= 2 || c.Target == "stack" {
			c.Opts &^= 8 // (nested closure bearers are pushed after the options are set; the built-in Marshal of a Stack row stores a nested Stack)
		}
	}
	n := rapid.IntRange(1, 6).Draw(t, "nsteps")
	for i := 0; i < n; i++ {
		s := C14Step{
			Op:    rapid.SampledFrom([]string{"install", "install", "remove"}).Draw(t, "op"),
			Which: rapid.SampledFrom(whiches).Draw(t, "which"),
			Fail:  rapid.Bool().Draw(t, "fail"),
			N:     rapid.IntRange(0, 99).Draw(t, "n"),
			Form:  rapid.IntRange(0, 1).Draw(t, "form"),
		}
		c.Steps = append(c.Steps, s)
	}
	return c
}

func init() {
	Register(Def[C14Case]{
		ID: "C14",
		Rule: "rapid-generated (a) push histories: batches of 0..6 tagged values (strings, ints, a native Stack, a Stack alias) against push policies given by an arbitrary accept/reject table over the 10 tags (recording closure), capacity none/1..6, interleaved with policy replacement/removal, Pop, SetErr(nil) and switching no-nesting (which must have no say while a policy is installed): " +
			"the closure's call log (values, order), Len/Index*, Err() are compared with the model (consult once per value while room remains; first rejection stops the batch and becomes Err()); " +
			"(b) install/remove sequences (1..6) of validity/presentation/equality/marshal/unmarshal closures on Stacks of every kind and validity/presentation/equality/unmarshal/evaluator on Conditions (expression a leaf, a Stack, or a Stack carrying rejecting closures of its own: the Condition's closures must still decide), with all observations " +
			"(Valid, String, IsEqual twin/other, Unmarshal, Marshal, Evaluate) checked after every step against closure result or built-in behaviour. " +
			"non-trivial = a rejection after >=1 acceptance and before >=1 further value, or capacity hit mid-batch with a policy installed, or an install->remove->call sequence; distinct = distinct case JSON",
		Gen: genC14,
		Run: runC14,
		Floors: map[string]float64{"reject-after-accept-before-more": 0.08, "capacity-hit-mid-batch-with-policy": 0.03,
			"basic-presentation-policy": 0.01, "cond-closures": 0.05, "cond-expression-form-2": 0.01, "stack-with-nested-closure-bearers": 0.02, "cond-expression-form-3": 0.01, "stack-closures": 0.1, "policy-removed": 0.05, "policy-decides-despite-no-nesting": 0.01},
		Assumptions: []string{"installed closures are pure recorders", "Stack.Valid is only required to be non-nil when the closure errs (it wraps the error); Condition.Valid must return the closure's error itself"},
	})
}

// presOut is what the recording presentation closures return: deliberately NOT whitespace-normalised
// (leading/trailing blanks, a run of blanks, a tab, a newline): String must hand it back untouched.
func presOut(n int) string { return "  P" + itoa(n) + "  two\tcols\n  indented " }
