package props

// C16 — Marshal accepts or rejects any input without panicking.

import (
	"fmt"
	"strings"

	stackage "github.com/JesseCoretta/go-stackage"
	"pgregory.net/rapid"
)

// MIn describes one entry of a Marshal input.
//
//	label junk int float bool nil typednil op bogusop userop emptyop nilop nonop
//	stack cond alias condalias zerostack zerocond list
type MIn struct {
	K     string `json:"k"`
	S     string `json:"s,omitempty"`
	I     int    `json:"i,omitempty"`
	Elems []MIn  `json:"elems,omitempty"`
}

type C16Case struct {
	Recv    string `json:"recv"`    // zero | AND | OR | NOT | LIST | BASIC
	RecvLen int    `json:"recvlen"` // initial elements of an initialised receiver
	RecvCap int    `json:"recvcap"` // 0 none
	RO      bool   `json:"ro"`
	Amb     int    `json:"amb,omitempty"`
	In      []MIn  `json:"in"`
}

var labels = []string{"AND", "OR", "NOT", "LIST", "BASIC", "CONDITION"}

func (m MIn) Value() any {
	switch m.K {
	case "label", "junk":
		return m.S
	case "int":
		return m.I
	case "float":
		return float64(m.I) + 0.5
	case "bool":
		return m.I%2 == 0
	case "nil":
		return nil
	case "typednil":
		switch m.I % 9 {
		case 0:
			return (*int)(nil)
		case 1:
			return (*stackage.Stack)(nil)
		case 2:
			return (*MyStack)(nil)
		case 3:
			return (**int)(nil)
		case 4:
			return (***string)(nil)
		case 5:
			return (**stackage.Stack)(nil)
		case 6:
			var p *int
			return &p // a live pointer to a nil pointer
		case 7:
			var p **MyCond
			return &p
		}
		return (*stackage.Condition)(nil)
	case "op":
		return stackage.ComparisonOperator(1 + posMod(m.I, 6))
	case "bogusop":
		return stackage.ComparisonOperator(7 + posMod(m.I, 200))
	case "userop":
		if m.I%3 == 2 {
			return sliceOp{"=~", "match"} // an operator of an uncomparable Go type
		}
		return userOp{"~=", "approx"}
	case "emptyop":
		if m.I%2 == 0 {
			return userOp{"", "ctx"}
		}
		return userOp{"x", ""}
	case "nilop":
		return stackage.Operator(nil)
	case "nonop":
		switch m.I % 3 {
		case 0:
			return "="
		case 1:
			return 1
		}
		return []any{"="}
	case "stack":
		return newStackOfKind(stackKinds[posMod(m.I, 5)], 0).Push("r", m.I)
	case "cond":
		return stackage.Cond("rk", stackage.Eq, m.I)
	case "alias":
		return MyStack(stackage.Or().Push(m.I))
	case "condalias":
		return MyCond(stackage.Cond("ak", stackage.Ne, "v"))
	case "zerostack":
		return stackage.Stack{}
	case "zerocond":
		return stackage.Condition{}
	case "list":
		out := make([]any, len(m.Elems))
		for i, e := range m.Elems {
			out[i] = e.Value()
		}
		return out
	}
	return nil
}

func mInValues(in []MIn) []any {
	out := make([]any, len(in))
	for i, e := range in {
		out[i] = e.Value()
	}
	return out
}

func isStackLabel(s string) bool {
	switch strings.ToUpper(s) {
	case "AND", "OR", "NOT", "LIST", "BASIC":
		return true
	}
	return false
}

// wellFormedStack: label (any case) followed by scalars, well-formed nested
// stacks (length >= 2 or a lone label) or well-formed CONDITION rows.
func wellFormedStack(in []MIn) bool {
	if len(in) == 0 || in[0].K != "label" || !isStackLabel(in[0].S) {
		return false
	}
	for _, e := range in[1:] {
		if !wellFormedEntry(e) {
			return false
		}
	}
	return true
}

func scalarEntry(e MIn) bool {
	switch e.K {
	case "label", "junk", "int", "float", "bool", "nil", "op", "userop":
		return true
	}
	return false
}

func wellFormedEntry(e MIn) bool {
	if e.K != "list" {
		return scalarEntry(e)
	}
	if wellFormedStack(e.Elems) {
		return true
	}
	return wellFormedCond(e.Elems)
}

func wellFormedCond(in []MIn) bool {
	if len(in) != 4 || in[0].K != "label" || strings.ToUpper(in[0].S) != "CONDITION" {
		return false
	}
	if (in[1].K != "junk" && in[1].K != "label") || in[1].S == "" {
		return false
	}
	if in[2].K != "op" && in[2].K != "userop" {
		return false
	}
	ex := in[3]
	if ex.K == "list" {
		return wellFormedStack(ex.Elems) || wellFormedCond(ex.Elems)
	}
	switch ex.K {
	case "int", "float", "bool":
		return true
	case "junk", "label":
		return ex.S != ""
	}
	return false
}

// matchDecoded compares a real decoded value with the well-formed description.
func matchDecodedStack(s stackage.Stack, in []MIn, path string) error {
	if !s.IsInit() {
		return fmt.Errorf("%s: not initialised", path)
	}
	if !strings.EqualFold(s.Kind(), in[0].S) {
		return fmt.Errorf("%s: Kind()=%s for label %q", path, s.Kind(), in[0].S)
	}
	if s.Len() != len(in)-1 {
		return fmt.Errorf("%s: Len()=%d for %d entries after the label", path, s.Len(), len(in)-1)
	}
	for i, e := range in[1:] {
		v, _ := s.Index(i)
		if err := matchDecodedEntry(v, e, fmt.Sprintf("%s[%d]", path, i)); err != nil {
			return err
		}
	}
	return nil
}

func matchDecodedEntry(v any, e MIn, path string) error {
	if e.K != "list" {
		want := e.Value()
		if wo, ok := want.(stackage.Operator); ok {
			if vo, ok2 := v.(stackage.Operator); !ok2 || !sameOp(vo, wo) {
				return fmt.Errorf("%s: %#v, want %#v", path, v, want)
			}
			return nil
		}
		if v != want {
			return fmt.Errorf("%s: %#v, want %#v", path, v, want)
		}
		return nil
	}
	if wellFormedStack(e.Elems) {
		st, ok := v.(stackage.Stack)
		if !ok {
			return fmt.Errorf("%s: nested envelope decoded to %T, want a Stack", path, v)
		}
		return matchDecodedStack(st, e.Elems, path)
	}
	c, ok := v.(stackage.Condition)
	if !ok {
		return fmt.Errorf("%s: CONDITION row decoded to %T, want a Condition", path, v)
	}
	return matchDecodedCond(c, e.Elems, path)
}

func matchDecodedCond(c stackage.Condition, in []MIn, path string) error {
	if c.Keyword() != in[1].S {
		return fmt.Errorf("%s: Keyword()=%q, want %q", path, c.Keyword(), in[1].S)
	}
	if x, _ := in[2].Value().(stackage.Operator); !sameOp(c.Operator(), x) {
		return fmt.Errorf("%s: Operator()=%#v, want %#v", path, c.Operator(), in[2].Value())
	}
	return matchDecodedEntry(c.Expression(), in[3], path+".expr")
}

func mInDepth(in []MIn) int {
	d := 0
	for _, e := range in {
		if e.K == "list" {
			if x := mInDepth(e.Elems); x > d {
				d = x
			}
		}
	}
	return d + 1
}

func classifyMIn(in []MIn, st *Stats, top bool) {
	if len(in) == 0 {
		st.Class("empty-envelope")
	}
	if len(in) == 1 && in[0].K == "list" {
		st.Class("single-element-envelope")
	}
	if len(in) == 1 && in[0].K == "label" {
		st.Class("label-only")
	}
	if len(in) > 0 && in[0].K == "label" {
		if strings.ToUpper(in[0].S) == "CONDITION" {
			st.Class("condition-row")
			if len(in) != 4 {
				st.Class("condition-row/wrong-length")
			} else {
				switch in[2].K {
				case "nonop":
					st.Class("condition-row/non-operator")
				case "nilop", "nil":
					st.Class("condition-row/nil-operator")
				case "bogusop", "emptyop":
					st.Class("condition-row/invalid-operator")
				}
				if in[1].K != "junk" && in[1].K != "label" {
					st.Class("condition-row/non-string-keyword")
				}
			}
		} else if in[0].S != strings.ToUpper(in[0].S) {
			st.Class("mis-cased-label")
		}
	}
	if len(in) > 0 && in[0].K == "junk" {
		st.Class("unrecognised-string-first")
	}
	if len(in) > 0 && in[0].K != "junk" && in[0].K != "label" && in[0].K != "list" {
		st.Class("non-string-first")
	}
	for _, e := range in {
		switch e.K {
		case "list":
			classifyMIn(e.Elems, st, false)
		case "zerostack", "zerocond", "typednil":
			st.Class("hostile-value:" + e.K)
		case "stack", "cond", "alias", "condalias":
			st.Class("ready-made:" + e.K)
		}
	}
}

func runC16(c C16Case) (st Stats, err error) {
	classifyMIn(c.In, &st, true)
	depth := mInDepth(c.In)
	wf := wellFormedStack(c.In)
	wfCond := wellFormedCond(c.In)
	if wf || wfCond {
		st.Class("well-formed")
	} else {
		st.Class("malformed")
	}
	st.Class("recv:" + c.Recv)

	mk := func() (stackage.Stack, []any) {
		var r stackage.Stack
		if c.Recv != "zero" {
			r = newStackOfKind(c.Recv, c.RecvCap)
			for i := 0; i < c.RecvLen; i++ {
				r.Push(tagValue(i + 1))
			}
			ApplyAmbient(r, c.Amb&^AmbPushOK)
			if c.RO {
				r.SetReadOnly(true)
			}
		}
		return r, mInValues(c.In)
	}
	var r, twin stackage.Stack
	var in, in2 []any
	if p := guard(func() { r, in = mk(); twin, in2 = mk() }); p != "" {
		return st, violf("setup/panic", "%s", p)
	}
	before := ""
	var oldContent []any
	if c.Recv != "zero" {
		before = Snapshot(r)
		oldContent = readContent(r)
	}

	var merr error
	if p := guard(func() { merr = r.Marshal(in...) }); p != "" {
		key := "marshal/panic"
		for _, cl := range st.Classes {
			switch cl {
			case "empty-envelope", "condition-row/non-operator", "condition-row/nil-operator", "hostile-value:zerostack", "hostile-value:typednil":
				key = "marshal/panic/" + cl
			}
		}
		return st, violf(key, "Marshal panicked: %s\n  input %#v", p, in)
	}
	guard(func() { twin.Marshal(in2...) })

	// ---- either an error, or an initialised and usable receiver
	if merr == nil && !r.IsInit() {
		return st, violf("marshal/nil-error-uninitialised", "Marshal returned nil but the receiver is not initialised\n  input %#v", in)
	}
	if r.IsInit() {
		if p := guard(func() {
			_ = r.String()
			_, _ = r.Unmarshal()
			_ = r.IsEqual(twin)
			_ = twin.IsEqual(r)
			_ = r.Len()
			_ = r.Kind()
			_ = r.IsNesting()
		}); p != "" {
			key := "followup/panic"
			for _, cl := range st.Classes {
				if strings.HasPrefix(cl, "hostile-value:") {
					key = "followup/panic/" + cl
				}
			}
			return st, violf(key, "a query on the receiver after Marshal panicked: %s\n  input %#v", p, in)
		}
	}

	// ---- positive semantics
	switch {
	case c.Recv == "zero":
		if wf {
			if merr != nil {
				return st, violf("zero-recv/well-formed-rejected", "Marshal of a well-formed input returned %v\n  input %#v", merr, in)
			}
			if e := matchDecodedStack(r, c.In, "R"); e != nil {
				return st, violf("zero-recv/decoded-wrong", "decoded stack differs from the input: %v\n  input %#v", e, in)
			}
			st.Class("zero-recv-decoded")
			// the receiver is now an initialised Stack like any other (and so is every Stack the decoder
			// built inside it): a further Marshal must add the decoded Stack as one new element
			targets := []stackage.Stack{r}
			for i := 0; i < r.Len(); i++ {
				if x, _ := r.Index(i); x != nil {
					if ns, ok := x.(stackage.Stack); ok && ns.IsInit() && !ns.IsReadOnly() {
						if i < len(c.In)-1 && c.In[i+1].K == "list" { // built by the decoder, not a ready-made value
							targets = append(targets, ns)
							break
						}
					}
				}
			}
			for ti, tgt := range targets {
				n0 := tgt.Len()
				var e2 error
				if p := guard(func() { e2 = tgt.Marshal(mInValues(c.In)...) }); p != "" {
					return st, violf("second-marshal/panic", "a second Marshal into the decoded receiver panicked: %s", p)
				}
				if tgt.Len() != n0+1 {
					return st, violf("second-marshal/nothing-added", "Marshal into a Stack that an earlier Marshal built (target %d: %s, Len %d, Cap %d) added nothing (err=%v)\n  input %#v", ti, tgt.Kind(), n0, tgt.Cap(), e2, in)
				}
				last, _ := tgt.Index(n0)
				s2, ok := last.(stackage.Stack)
				if !ok {
					return st, violf("second-marshal/element-type", "second Marshal added %T, want the decoded Stack", last)
				}
				if e := matchDecodedStack(s2, c.In, "R.second"); e != nil {
					return st, violf("second-marshal/decoded-wrong", "element added by the second Marshal differs from the input: %v", e)
				}
			}
			st.Class("second-marshal-into-decoded")
		} else if len(c.In) > 0 && c.In[0].K == "junk" && merr == nil {
			// unrecognised string first element => BASIC holding all entries
			if r.Kind() != "BASIC" || r.Len() != len(c.In) {
				return st, violf("zero-recv/unrecognised-label", "unrecognised first element %q gave Kind=%s Len=%d, want BASIC with all %d entries", c.In[0].S, r.Kind(), r.Len(), len(c.In))
			}
			first, _ := r.Index(0)
			if first != c.In[0].S {
				return st, violf("zero-recv/unrecognised-label", "BASIC fallback lost the first entry: Index(0)=%#v", first)
			}
			st.Class("zero-recv-basic-fallback")
		}
	case c.RO:
		if after := Snapshot(r); after != before {
			return st, violf("readonly-recv/changed", "Marshal changed a read-only receiver: %s", diffSnap(before, after))
		}
		st.Class("readonly-recv")
	default:
		n := len(oldContent)
		now := readContent(r)
		full := c.RecvCap > 0 && n >= c.RecvCap
		if len(now) < n || len(now) > n+1 {
			return st, violf("init-recv/len", "Marshal into an initialised receiver changed Len from %d to %d", n, len(now))
		}
		for i := range oldContent {
			if now[i] != oldContent[i] {
				return st, violf("init-recv/content", "Marshal into an initialised receiver altered existing element %d", i)
			}
		}
		if full && len(now) != n {
			return st, violf("init-recv/full", "Marshal into a full receiver added an element")
		}
		if (wf || wfCond) && !full {
			if len(now) != n+1 {
				return st, violf("init-recv/nothing-added", "well-formed input but nothing was added (err=%v)\n  input %#v", merr, in)
			}
			if wf {
				s2, ok := now[n].(stackage.Stack)
				if !ok {
					return st, violf("init-recv/element-type", "added element is %T, want the decoded Stack", now[n])
				}
				if e := matchDecodedStack(s2, c.In, "R.last"); e != nil {
					return st, violf("init-recv/decoded-wrong", "decoded element differs from the input: %v", e)
				}
			} else {
				cc, ok := now[n].(stackage.Condition)
				if !ok {
					return st, violf("init-recv/element-type", "added element is %T, want the decoded Condition", now[n])
				}
				if e := matchDecodedCond(cc, c.In, "R.last"); e != nil {
					return st, violf("init-recv/decoded-wrong", "decoded condition differs from the input: %v", e)
				}
			}
			st.Class("init-recv-gained-one")
		}
	}
	malformed := false
	for _, cl := range st.Classes {
		if cl == "malformed" || strings.HasPrefix(cl, "condition-row/") || cl == "empty-envelope" || cl == "single-element-envelope" {
			malformed = true
		}
	}
	st.NonTrivial = depth >= 2 || st.hasClass("condition-row") || malformed
	return st, nil
}

// ---- generators ----------------------------------------------------------------------

func genLabel(t *rapid.T) string {
	l := rapid.SampledFrom(labels[:5]).Draw(t, "label")
	switch rapid.IntRange(0, 3).Draw(t, "case") {
	case 0:
		return strings.ToLower(l)
	case 1:
		return l[:1] + strings.ToLower(l[1:])
	}
	return l
}

// hostileTexts: strings whose first or last characters are the ones the renderer trims, condenses or pairs
// (blanks of every kind at either end, brackets, quotes), control characters, invalid UTF-8, a long one.
var hostileTexts = []string{"\t", "x\t", "\tx", "beta \t", " ", "  ", "x ", " x", "\n", "x\n", "\nx", "\r\n", "x\v", "x\f", "a  b", "a\t\tb", "\u00a0", "x\u00a0", "\u2003x",
	"(", ")", "( x )", "((", "\"", "'", "x\"", "\x00", "x\x00", "\xff", "x\xff\xfe", "\u200b", strings.Repeat("long ", 300) + "\t"}

// nearLabels: junk that is one step away from a label (one bit, one blank, one letter, another script): none of them is a label.
var nearLabels = []string{"\xc1ND", "a\xeed", "O\xd2", "\xeeo\xf4", "l\xc9st", "\xc3ONDITION", "condi\xf4ion", "AND ", " AND", "AN", "ANDS", "A ND", "ＡＮＤ", "ÁND", "ОR", "and\x00", "\x00OR", "NOT\t", "CONDITION\n"}

func genScalar(t *rapid.T, hostile bool) MIn {
	k := rapid.SampledFrom([]string{"junk", "junk", "int", "float", "bool", "nil", "op", "userop", "label"}).Draw(t, "scalar")
	if hostile && rapid.IntRange(0, 2).Draw(t, "hostile?") == 0 {
		k = rapid.SampledFrom([]string{"typednil", "bogusop", "emptyop", "nilop", "stack", "cond", "alias", "condalias", "zerostack", "zerocond"}).Draw(t, "hostile")
	}
	m := MIn{K: k, I: rapid.IntRange(0, 20).Draw(t, "i")}
	switch k {
	case "junk":
		m.S = rapid.SampledFrom([]string{"foo", "x", "", "and then", "é", "cond"}).Draw(t, "junk")
		if rapid.IntRange(0, 2).Draw(t, "hostile-text?") == 0 {
			m.S = rapid.SampledFrom(hostileTexts).Draw(t, "hostile-text")
			if rapid.IntRange(0, 2).Draw(t, "nearlabel-text?") == 0 {
				m.S = rapid.SampledFrom(nearLabels).Draw(t, "nearlabel-text")
			}
		}
	case "label":
		m.S = genLabel(t)
	}
	return m
}

func genCondRow(t *rapid.T, depth int, hostile bool) MIn {
	lab := "CONDITION"
	switch rapid.IntRange(0, 3).Draw(t, "ccase") {
	case 0:
		lab = "condition"
	case 1:
		lab = "Condition"
	}
	row := []MIn{{K: "label", S: lab}}
	if !hostile || rapid.IntRange(0, 1).Draw(t, "wf") == 0 {
		row = append(row, MIn{K: "junk", S: rapid.SampledFrom([]string{"cn", "k", "mail"}).Draw(t, "kw")})
		row = append(row, MIn{K: rapid.SampledFrom([]string{"op", "op", "userop"}).Draw(t, "opk"), I: rapid.IntRange(0, 5).Draw(t, "opi")})
		if depth > 0 && rapid.IntRange(0, 2).Draw(t, "nestedexpr") == 0 {
			row = append(row, genEnvelope(t, depth-1, hostile))
		} else {
			ex := MIn{K: rapid.SampledFrom([]string{"junk", "int", "float", "bool"}).Draw(t, "exk"), S: "v", I: rapid.IntRange(0, 9).Draw(t, "exi")}
			if ex.K == "junk" && rapid.IntRange(0, 3).Draw(t, "hostile-expr?") == 0 {
				ex.S = rapid.SampledFrom(hostileTexts).Draw(t, "hostile-expr")
			}
			row = append(row, ex)
		}
		return MIn{K: "list", Elems: row}
	}
	// each field independently right/wrong typed, length 1..6 (half of the time exactly four fields)
	n := 3
	if rapid.Bool().Draw(t, "odd-length") {
		n = rapid.IntRange(0, 5).Draw(t, "rowlen")
	}
	for i := 0; i < n; i++ {
		switch i {
		case 0:
			if rapid.IntRange(0, 3).Draw(t, "kwok") > 0 {
				row = append(row, MIn{K: "junk", S: "kw"})
			} else {
				row = append(row, genScalar(t, true))
			}
		case 1:
			row = append(row, MIn{K: rapid.SampledFrom([]string{"op", "userop", "nonop", "nonop", "nilop", "nil", "bogusop", "emptyop", "typednil"}).Draw(t, "opslot"), I: rapid.IntRange(0, 9).Draw(t, "opi")})
		default:
			if depth > 0 && rapid.Bool().Draw(t, "nest") {
				row = append(row, genEnvelope(t, depth-1, hostile))
			} else {
				row = append(row, genScalar(t, true))
			}
		}
	}
	return MIn{K: "list", Elems: row}
}

func genEnvelope(t *rapid.T, depth int, hostile bool) MIn {
	shape := rapid.IntRange(0, 19).Draw(t, "shape")
	if !hostile && shape >= 14 {
		shape = shape % 14
	}
	switch {
	case shape < 3:
		return genCondRow(t, depth, hostile)
	case shape < 14:
		elems := []MIn{{K: "label", S: genLabel(t)}}
		w := rapid.IntRange(0, 5).Draw(t, "width")
		for i := 0; i < w; i++ {
			if depth > 0 && rapid.IntRange(0, 3).Draw(t, "nest") == 0 {
				elems = append(elems, genEnvelope(t, depth-1, hostile))
			} else {
				elems = append(elems, genScalar(t, hostile))
			}
		}
		return MIn{K: "list", Elems: elems}
	case shape == 14:
		return MIn{K: "list"} // empty envelope
	case shape == 15:
		// single-element envelopes nested k deep around {a label, an empty slice, a non-slice}
		k := rapid.IntRange(1, 4).Draw(t, "k")
		var inner MIn
		switch rapid.IntRange(0, 2).Draw(t, "core") {
		case 0:
			inner = MIn{K: "list", Elems: []MIn{{K: "label", S: genLabel(t)}}}
		case 1:
			inner = MIn{K: "list"}
		default:
			inner = genScalar(t, true)
		}
		for i := 0; i < k; i++ {
			inner = MIn{K: "list", Elems: []MIn{inner}}
		}
		return inner
	case shape == 16:
		// junk first element
		elems := []MIn{{K: "junk", S: rapid.SampledFrom([]string{"foo", "", "AND ", "whatever"}).Draw(t, "junk0")}}
		if rapid.Bool().Draw(t, "nearlabel?") {
			elems[0].S = rapid.SampledFrom(nearLabels).Draw(t, "nearlabel")
		}
		w := rapid.IntRange(0, 4).Draw(t, "width")
		for i := 0; i < w; i++ {
			elems = append(elems, genScalar(t, hostile))
		}
		return MIn{K: "list", Elems: elems}
	case shape == 17:
		// non-string first element
		elems := []MIn{genScalar(t, true)}
		w := rapid.IntRange(0, 3).Draw(t, "width")
		for i := 0; i < w; i++ {
			elems = append(elems, genScalar(t, hostile))
		}
		return MIn{K: "list", Elems: elems}
	default:
		// arbitrary mixture
		w := rapid.IntRange(0, 6).Draw(t, "width")
		var elems []MIn
		for i := 0; i < w; i++ {
			if depth > 0 && rapid.IntRange(0, 2).Draw(t, "nest") == 0 {
				elems = append(elems, genEnvelope(t, depth-1, true))
			} else {
				elems = append(elems, genScalar(t, true))
			}
		}
		return MIn{K: "list", Elems: elems}
	}
}

func genC16(t *rapid.T, tier Tier) C16Case {
	depth := 4
	c := C16Case{Recv: rapid.SampledFrom([]string{"zero", "zero", "zero", "AND", "OR", "NOT", "LIST"}).Draw(t, "recv")}
	if c.Recv != "zero" {
		c.RecvLen = rapid.IntRange(0, 3).Draw(t, "recvlen")
		if rapid.IntRange(0, 2).Draw(t, "hascap") == 0 {
			c.RecvCap = c.RecvLen + rapid.IntRange(0, 2).Draw(t, "capextra")
		}
		c.RO = rapid.IntRange(0, 5).Draw(t, "ro") == 0
		c.Amb = drawAmbient(t, false)
	}
	hostile := rapid.IntRange(0, 9).Draw(t, "hostile") < 6
	env := genEnvelope(t, depth, hostile)
	if env.K == "list" {
		c.In = env.Elems
	} else {
		c.In = []MIn{env}
	}
	if hostile && rapid.IntRange(0, 9).Draw(t, "wraptop") == 0 {
		c.In = []MIn{{K: "list", Elems: c.In}}
	}
	return c
}

func init() {
	Register(Def[C16Case]{
		ID: "C16",
		Rule: "rapid-generated (and, in the thorough tier, coverage-guided) []any trees up to depth 5 / width 6: labels in any letter case, junk strings, numbers, nil, typed nils, operators (valid, bogus built-in, user-defined, empty text/context, nil interface, non-operators in the operator slot), " +
			"ready-made Stacks/Conditions/aliases, zero Stacks/Conditions, nested []any of the same; structured risky shapes (empty envelope, single-element envelopes nested k deep, CONDITION rows of length 1..6 with each field right/wrong typed, label-only, junk or non-string first element). " +
			"Receiver: zero Stack, initialised Stack of every kind, with/without capacity, read-only. Oracle: no panic; nil error => initialised receiver; String/Unmarshal/IsEqual/Len/Kind return normally afterwards; " +
			"on the well-formed subset the decoded structure must match the input entry by entry (zero receiver) or be the one added element (initialised receiver); unrecognised string first element => BASIC with all entries; read-only receiver unchanged. " +
			"non-trivial = depth>=2, or a CONDITION row, or a malformed construct; distinct = distinct case JSON",
		Gen: genC16,
		Run: runC16,
		Floors: map[string]float64{"empty-envelope": 0.02, "single-element-envelope": 0.02, "condition-row/non-operator": 0.01, "condition-row/wrong-length": 0.02, "condition-row/nil-operator": 0.005, "mis-cased-label": 0.2,
			"zero-recv-decoded": 0.05, "init-recv-gained-one": 0.05, "zero-recv-basic-fallback": 0.005, "readonly-recv": 0.03, "hostile-value:zerostack": 0.02, "well-formed": 0.15},
		Assumptions: []string{"a non-string first element may be rejected or stored in a BASIC stack (docs silent)", "receivers carry no push policy / no-nesting option"},
	})
}
