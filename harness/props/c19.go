package props

// C19 — Defrag removes every nil gap and nothing else.
//
// Layered oracle (DESIGN.md C19): L0 (always strict): no panic, nothing
// fabricated/duplicated/reordered, no growth, configuration untouched, nil-free
// trees untouched. L1 (the full property): exactly the former non-nil elements,
// no nil left, Err()==nil, recursively. A case that fails only L1 is compared
// with a literal port of the *currently shipped* defragmentation algorithm: if
// the real result is exactly what that (defective, test-pinned) algorithm
// yields, the case is the listed known finding; any other L1 failure — and any
// L0 failure — is a violation.

import (
	"fmt"
	"strings"

	stackage "github.com/JesseCoretta/go-stackage"
	"pgregory.net/rapid"
)

type C19Case struct {
	Root  Node `json:"root"`
	Limit int  `json:"limit"` // 0: Defrag() without argument
}

// ---- model tree --------------------------------------------------------------------

type mElem struct {
	id    string  // "" = nil element; identity text otherwise
	stack *mStack // nested stack (element itself, or nil)
	cexpr *mStack // element is a Condition whose expression is this stack
}

type mStack struct {
	path  string
	elems []mElem
	fwd   bool
	h     stackage.Stack
}

// buildTracked builds the real tree and, in parallel, the model tree with a handle per stack.
func buildTracked(n Node, path string, all *[]*mStack) (any, *mStack) {
	switch n.T {
	case "leaf":
		return n.Leaf.Value(), nil
	case "cond":
		var c stackage.Condition
		c.Init()
		c.SetKeyword(n.KW)
		c.SetOperator(n.Op.Value())
		var ms *mStack
		if n.Expr != nil {
			v, m := buildTracked(*n.Expr, path+"/e", all)
			c.SetExpression(v)
			ms = m
		}
		if n.Amb&AmbErr != 0 {
			c.SetErr(errAmbient) // an error recorded earlier on the Condition: no say in what Defrag visits
		}
		return wrapCond(c, n.Wrap), ms
	}
	s := newStackOfKind(n.Kind, n.Cap)
	if n.NegIdx {
		s.SetNegativeIndices(true)
	}
	if n.FwdIdx {
		s.SetForwardIndices(true)
	}
	if n.Paren {
		s.SetParen(true)
	}
	ms := &mStack{path: path, fwd: n.FwdIdx, h: s}
	*all = append(*all, ms)
	for i, e := range n.Elems {
		v, sub := buildTracked(e, fmt.Sprintf("%s/%d", path, i), all)
		s.Push(v)
		me := mElem{}
		switch {
		case e.IsLeaf() && e.Leaf.IsNil():
		case e.IsLeaf():
			me.id = identOf(v)
		case e.IsStack():
			me.id = normIdent(v)
			me.stack = sub
		case e.IsCond():
			me.id = normIdent(v)
			me.cexpr = sub
		}
		ms.elems = append(ms.elems, me)
	}
	// settings that the statement does not name: applied once the content is in
	if n.NoNest {
		s.SetNoNesting(true)
	}
	if n.Amb != 0 {
		ApplyAmbient(s, n.Amb&^AmbErr) // (an error recorded earlier is exercised separately below, where Defrag is known to succeed)
	}
	if n.ValidRej {
		// what its owner thinks of a nested stack's content (a closure that objects to nil elements, say) has no say in Defrag
		s.SetValidityPolicy(func(...any) error { return errValidityRejects })
	}
	return wrapStack(s, n.Wrap), ms
}

func (m *mStack) ids() []string {
	out := make([]string, len(m.elems))
	for i, e := range m.elems {
		out[i] = e.id
	}
	return out
}

func realIDs(s stackage.Stack) []string {
	out := make([]string, 0, s.Len())
	// read raw slots through the dump so that index options cannot interfere
	d := stackage.VerifDump(s)
	slots, _ := d["slots"].([]any)
	for i := 1; i < len(slots); i++ {
		if slots[i] == nil {
			out = append(out, "")
			continue
		}
		sm, _ := slots[i].(map[string]any)
		switch sm["kind"] {
		case "stack":
			out = append(out, fmt.Sprintf("stack@%v", sm["ptr"]))
		case "condition":
			out = append(out, fmt.Sprintf("cond@%v", sm["ptr"]))
		default:
			if p, ok := sm["ptr"]; ok {
				out = append(out, fmt.Sprintf("%s@%v", sm["type"], p))
			} else {
				out = append(out, fmt.Sprintf("%s=%v", sm["type"], sm["val"]))
			}
		}
	}
	return out
}

func nonNil(ids []string) []string {
	var out []string
	for _, x := range ids {
		if x != "" {
			out = append(out, x)
		}
	}
	return out
}

func maxNilRun(ids []string) int {
	best, cur := 0, 0
	for _, x := range ids {
		if x == "" {
			cur++
			if cur > best {
				best = cur
			}
		} else {
			cur = 0
		}
	}
	return best
}

// ---- literal port of the shipped algorithm (stack.go: defrag / implode / verifyImplode) ----

func shippedDefragMax(limit int) int {
	if limit > 0 {
		return limit
	}
	return 50
}

// shippedDefragOne applies the shipped top-level defrag to one model stack; returns whether Err is left non-nil.
func shippedDefragOne(m *mStack, max int) (errSet bool) {
	raw := make([]mElem, 0, len(m.elems)+1)
	raw = append(raw, mElem{id: "cfg"})
	raw = append(raw, m.elems...)
	L := len(m.elems)
	index := func(i int) bool { // "found" flag of stack.index(i) for i >= 0
		if L == 0 {
			return false
		}
		if i > L-1 {
			if m.fwd {
				return raw[L].id != ""
			}
			return false
		}
		return raw[i+1].id != ""
	}
	start := -1
	spat := make([]int, len(raw))
	for i := 0; i < len(raw); i++ {
		if !index(i) {
			if start == -1 {
				start = i
			}
			continue
		}
		spat[i] = 1
	}
	if !(start == -1 || max <= start) {
		// implode
		ct := 0
		tpat := make([]int, len(spat))
		tpat[0] = 1
		for {
			if ct >= max || start+ct >= L {
				break
			}
			if raw[start+ct+1].id == "" {
				ct++
				continue
			}
			raw[start+1] = raw[start+ct+1]
			tpat[start+ct] = 1
			raw[start+ct+1] = mElem{}
			start = start + 1
			ct = 0
		}
		// verifyImplode
		last := -1
		ndata := 0
		fail := false
		for i := 1; i < len(spat); i++ {
			fail = spat[i] != tpat[i]
			if tpat[i] != 0 {
				last = (ndata + i) - len(tpat)
			}
			ndata++
		}
		last--
		errSet = fail
		if !fail && last >= 0 {
			raw = raw[:last+1]
		}
	}
	m.elems = append([]mElem{}, raw[1:]...)
	return errSet
}

// shippedDefrag mirrors Stack.Defrag's recursion on the model tree.
func shippedDefrag(m *mStack, max int, errs map[string]bool) {
	errs[m.path] = shippedDefragOne(m, max)
	nesting := false
	for _, e := range m.elems {
		if e.stack != nil {
			nesting = true
		}
	}
	if !nesting {
		return
	}
	for _, e := range m.elems {
		if e.id == "" {
			continue
		}
		if e.stack != nil {
			shippedDefrag(e.stack, max, errs)
		} else if e.cexpr != nil {
			shippedDefrag(e.cexpr, max, errs)
		}
	}
}

func patternOf(ids []string) string {
	var b strings.Builder
	for _, x := range ids {
		if x == "" {
			b.WriteByte('_')
		} else {
			b.WriteByte('x')
		}
	}
	return b.String()
}

func runC19(c C19Case) (st Stats, err error) {
	var all []*mStack
	var root stackage.Stack
	if p := guard(func() {
		v, _ := buildTracked(c.Root, "r", &all)
		root, _ = unwrapStack(v)
	}); p != "" {
		return st, violf("setup/panic", "%s", p)
	}
	if !root.IsInit() {
		return st, violf("harness", "root is not a stack")
	}
	max := shippedDefragMax(c.Limit)

	type before struct {
		ids  []string
		cfg  string
		snap string
	}
	bef := make([]before, len(all))
	anyNil, strict := false, true
	for i, m := range all {
		ids := m.ids()
		d := stackage.VerifDump(m.h)
		cfg := cfgOf(d)
		cfg["err"] = nil
		bef[i] = before{ids: ids, cfg: fmt.Sprint(cfg), snap: Snapshot(m.h)}
		if len(nonNil(ids)) != len(ids) {
			anyNil = true
		}
		if maxNilRun(ids) >= max {
			strict = false
		}
		// classes
		pat := patternOf(ids)
		tr := strings.TrimRight(pat, "_")
		switch {
		case !strings.Contains(pat, "_"):
		case strings.HasPrefix(pat, "_") && strings.Contains(tr, "x"):
			st.Class("leading-nils")
			st.NonTrivial = true
		case strings.Contains(tr, "_"):
			if strings.Count(strings.ReplaceAll(strings.ReplaceAll(tr, "__", "_"), "__", "_"), "_") > 1 {
				st.Class("several-gaps")
			} else {
				st.Class("one-gap")
			}
			st.NonTrivial = true
		}
		if tr != pat {
			st.Class("trailing-nils")
			st.NonTrivial = true
		}
		if m.path != "r" && strings.Contains(pat, "_") {
			st.Class("nested-with-nils")
		}
	}
	if !strict {
		st.Class("run>=limit")
	}
	if !anyNil {
		st.Class("nil-free")
	}

	if p := guard(func() {
		if c.Limit == 0 {
			root.Defrag()
		} else {
			root.Defrag(c.Limit)
		}
	}); p != "" {
		return st, violf("defrag/L0/panic", "Defrag(%d) panicked: %s\n  tree %s", c.Limit, p, c.Root.Brief())
	}

	// ---- L0
	l1fail := ""
	for i, m := range all {
		now := realIDs(m.h)
		if len(now) > len(bef[i].ids) {
			return st, violf("defrag/L0/grew", "%s: Len grew from %d to %d", m.path, len(bef[i].ids), len(now))
		}
		want := nonNil(bef[i].ids)
		// survivors must be a subsequence of the former non-nil elements
		j := 0
		for _, x := range nonNil(now) {
			for j < len(want) && want[j] != x {
				j++
			}
			if j == len(want) {
				return st, violf("defrag/L0/fabricated-duplicated-or-reordered", "%s: after Defrag %v is not an order-preserving selection of the former elements %v", m.path, now, bef[i].ids)
			}
			j++
		}
		d := stackage.VerifDump(m.h)
		cfg := cfgOf(d)
		cfg["err"] = nil
		if got := fmt.Sprint(cfg); got != bef[i].cfg {
			return st, violf("defrag/L0/config-changed", "%s: configuration changed: %s", m.path, diffSnap(bef[i].cfg, got))
		}
		if !anyNil {
			if after := Snapshot(m.h); after != bef[i].snap {
				return st, violf("defrag/L0/nil-free-touched", "%s: a tree without nil elements was changed: %s", m.path, diffSnap(bef[i].snap, after))
			}
		}
		// ---- L1
		if l1fail == "" {
			switch {
			case fmt.Sprint(now) != fmt.Sprint(want):
				l1fail = fmt.Sprintf("%s: content after Defrag %v, want the former non-nil elements %v (pattern %s)", m.path, now, want, patternOf(bef[i].ids))
			case m.h.Err() != nil && len(want) != len(bef[i].ids):
				// (a stack that held no nil itself is "left untouched", an error recorded earlier included)
				l1fail = fmt.Sprintf("%s: Err()=%v after Defrag (pattern %s)", m.path, m.h.Err(), patternOf(bef[i].ids))
			}
		}
	}
	if !strict || l1fail == "" {
		if l1fail == "" && anyNil && strict {
			st.Class("L1-held")
			// Defrag does its job on this tree. The same tree again, every stack (and every Condition) carrying
			// an error recorded earlier: the result is the same, and every stack that held a nil reports Err()==nil
			var all2 []*mStack
			root2, _ := buildTracked(c.Root, "r", &all2)
			rs, _ := unwrapStack(root2)
			had := map[string]bool{}
			for _, m := range all2 {
				had[m.path] = len(nonNil(realIDs(m.h))) != len(realIDs(m.h))
				m.h.SetErr(errAmbient)
			}
			var p string
			if c.Limit != 0 {
				p = guard(func() { rs.Defrag(c.Limit) })
			} else {
				p = guard(func() { rs.Defrag() })
			}
			if p != "" {
				return st, violf("defrag/stale-error/panic", "%s", p)
			}
			for i, m := range all2 {
				if a, b := len(realIDs(m.h)), len(realIDs(all[i].h)); a != b {
					return st, violf("defrag/stale-error/result", "%s: with an error recorded earlier Defrag leaves %d elements, without it %d\n  tree %s", m.path, a, b, c.Root.Brief())
				}
				// (asserted for the stack Defrag was called on; nested stacks are observed to keep such an error even
				// when they are compacted - one more face of the listed finding, see DESIGN.md R25 - and are not asserted)
				if i == 0 && had[m.path] && m.h.Err() != nil {
					return st, violf("defrag/stale-error", "%s: Defrag compacted the stack but Err() still reports the error recorded earlier: %v\n  tree %s", m.path, m.h.Err(), c.Root.Brief())
				}
			}
			st.Class("L1-held-with-stale-error")
		}
		return st, nil
	}

	// ---- L1 failed inside the strict domain: is it exactly the shipped algorithm's result?
	errs := map[string]bool{}
	shippedDefrag(all[0], max, errs)
	for _, m := range all {
		now := realIDs(m.h)
		pred := m.ids() // model elems were updated in place by shippedDefrag
		if fmt.Sprint(now) != fmt.Sprint(pred) {
			return st, violf("defrag/L1/unlisted-result", "%s\n  and the result differs from the listed known behaviour at %s: real %v, shipped algorithm predicts %v\n  tree %s limit %d", l1fail, m.path, now, pred, c.Root.Brief(), c.Limit)
		}
		if e, reached := errs[m.path]; reached && (m.h.Err() != nil) != e {
			return st, violf("defrag/L1/unlisted-result", "%s\n  and Err() differs from the listed known behaviour at %s: real %v, predicted set=%v", l1fail, m.path, m.h.Err(), e)
		}
	}
	st.Class("L1-failed-as-listed")
	return st, violf("defrag/shipped-algorithm", "%s\n  tree %s limit %d", l1fail, c.Root.Brief(), c.Limit)
}

// ---- generators ----------------------------------------------------------------------

func patternNode(kind string, bits, n int, negidx, fwdidx bool) Node {
	root := Node{T: "stack", Kind: kind, NegIdx: negidx, FwdIdx: fwdidx}
	for i := 0; i < n; i++ {
		if bits&(1<<i) != 0 {
			root.Elems = append(root.Elems, LeafN(VNil()))
		} else {
			root.Elems = append(root.Elems, LeafN(VS("v"+itoa(i))))
		}
	}
	return root
}

func enumC19(tier Tier, yield func(C19Case)) {
	maxLen := 10
	if tier.Thorough {
		maxLen = 12
	}
	limits := []int{0, 2, 3, 50, 1000, -1}
	for n := 0; n <= maxLen; n++ {
		for bits := 0; bits < 1<<n; bits++ {
			for li, lim := range limits {
				for opt := 0; opt < 4; opt++ {
					kind := stackKinds[(bits+n+li+opt)%5]
					yield(C19Case{Root: patternNode(kind, bits, n, opt&1 != 0, opt&2 != 0), Limit: lim})
				}
			}
		}
	}
}

func genC19(t *rapid.T, tier Tier) C19Case {
	maxLen := 60
	if tier.Thorough {
		maxLen = 200
	}
	tagN := 0
	var genStack func(depth int) Node
	genElems := func(n *Node, depth int) {
		length := rapid.IntRange(0, 14).Draw(t, "len")
		if depth == 0 && rapid.IntRange(0, 4).Draw(t, "long") == 0 {
			length = rapid.IntRange(15, maxLen).Draw(t, "longlen")
		}
		if depth <= 1 && rapid.IntRange(0, 249).Draw(t, "huge") == 0 {
			length = rapid.IntRange(250, 420).Draw(t, "hugelen") // past one byte's worth of positions
		}
		nilw := rapid.IntRange(5, 60).Draw(t, "nilweight")
		for i := 0; i < length; i++ {
			r := rapid.IntRange(0, 99).Draw(t, "elem")
			switch {
			case r < nilw:
				// a run of nils
				run := 1
				if rapid.IntRange(0, 3).Draw(t, "run?") == 0 {
					run = rapid.IntRange(2, 8).Draw(t, "run")
					if rapid.IntRange(0, 9).Draw(t, "longrun?") == 0 {
						run = rapid.IntRange(9, 60).Draw(t, "longrun")
					}
				}
				for k := 0; k < run; k++ {
					n.Elems = append(n.Elems, LeafN(VNil()))
				}
			case r < nilw+8 && depth < 2:
				n.Elems = append(n.Elems, genStack(depth+1))
			case r < nilw+13 && depth < 2:
				e := genStack(depth + 1)
				cn := Node{T: "cond", KW: "k", Op: OpEq(), Expr: &e, Wrap: rapid.SampledFrom([]int{0, 0, WrapAlias, WrapPtr, WrapPtrNS, WrapPtrLoud}).Draw(t, "cwrap")}
				if rapid.IntRange(0, 2).Draw(t, "cond-err") == 0 {
					cn.Amb = AmbErr
				}
				n.Elems = append(n.Elems, cn)
			case r >= 96:
				// a typed nil pointer is a stored value, not a gap
				// (hollow values of the library's own types - zero Stack, nil *Stack - are left to C08/C20: the literal
				// port of the shipped algorithm that recognises the listed finding does not model how they count for IsNesting)
				n.Elems = append(n.Elems, LeafN(Val{K: "tnil", Depth: rapid.IntRange(1, 3).Draw(t, "tnil")}))
			default:
				tagN++
				n.Elems = append(n.Elems, LeafN(VS("v"+itoa(tagN))))
			}
		}
	}
	genStack = func(depth int) Node {
		n := Node{T: "stack", Kind: rapid.SampledFrom(stackKinds).Draw(t, "kind"),
			NegIdx: rapid.Bool().Draw(t, "negidx"), FwdIdx: rapid.IntRange(0, 3).Draw(t, "fwdidx") == 0,
			Paren: rapid.Bool().Draw(t, "paren"), Amb: drawAmbient(t, true), NoNest: rapid.IntRange(0, 4).Draw(t, "nonest-after") == 0}
		if depth > 0 {
			n.Wrap = rapid.SampledFrom([]int{0, 0, WrapAlias, WrapPtr}).Draw(t, "wrap")
			n.ValidRej = rapid.IntRange(0, 4).Draw(t, "validrej") == 0
		}
		genElems(&n, depth)
		if rapid.IntRange(0, 5).Draw(t, "cap") == 0 {
			n.Cap = len(n.Elems) + rapid.IntRange(0, 2).Draw(t, "capextra")
		}
		return n
	}
	return C19Case{Root: genStack(0), Limit: rapid.SampledFrom([]int{0, 0, 0, -1, 1, 2, 5, 50, 1000}).Draw(t, "limit")}
}

func init() {
	Register(Def[C19Case]{
		ID: "C19",
		Rule: "exhaustive: every nil/non-nil pattern of length 0..10 (thorough 0..12) with distinct tagged values x scan limit {default, 2, 3, 50, 1000, -1} x negative/forward index options x kind; " +
			"rapid: patterns up to length 60 (thorough 200) with nil runs up to 60, nested in Stacks (native/alias/pointer) and Condition expressions two levels deep, capacity on some nodes. " +
			"Layered oracle: L0 strict (no panic, survivors are an order-preserving selection of the former elements, no growth, configuration untouched, nil-free trees untouched); " +
			"L1 = exactly the former non-nil elements, no nil, Err()==nil at every stack (only asserted when every nil run is shorter than the limit). A case failing only L1 is accepted as the listed known finding " +
			"iff the real result equals, stack by stack, what a literal port of the shipped (test-pinned) algorithm yields; otherwise VIOLATION. non-trivial = some stack needs relocation (a nil before a non-nil) or has trailing nils; distinct = distinct case JSON",
		Gen:         genC19,
		Run:         runC19,
		Enum:        enumC19,
		EnumNote:    "all nil/non-nil patterns of length 0..10 (quick) / 0..12 (thorough) x 6 scan limits x 4 index-option settings",
		Floors:      map[string]float64{"leading-nils": 0.1, "several-gaps": 0.1, "trailing-nils": 0.1, "nested-with-nils": 0.1, "run>=limit": 0.03, "nil-free": 0.005},
		Assumptions: []string{"element values are distinct tagged strings and nested instances (identity)", "the port of the shipped algorithm in c19.go is a trusted description of the known-defective behaviour (used only to recognise the listed finding, never to accept a wrong result as right)"},
	})
}
