package props

// C08 — no index and no element value can panic or corrupt a Stack.

import (
	"fmt"
	"math"
	"reflect"
	"strings"

	stackage "github.com/JesseCoretta/go-stackage"
	"pgregory.net/rapid"
)

type C08Case struct {
	Mode string `json:"mode"` // grid | values

	// grid
	Kind   string `json:"kind,omitempty"`
	Cap    int    `json:"cap,omitempty"`
	Len    int    `json:"len,omitempty"`
	NilAt  int    `json:"nilat,omitempty"` // -1 none
	Neg    bool   `json:"neg,omitempty"`
	Fwd    bool   `json:"fwd,omitempty"`
	FIFO   bool   `json:"fifo,omitempty"`
	Amb    int    `json:"amb,omitempty"`
	Prep   string `json:"prep,omitempty"` // history before the call: "" | remove | reset | insertfront (re-allocated backing arrays)
	Method string `json:"method,omitempty"`
	I      int    `json:"i,omitempty"`
	J      int    `json:"j,omitempty"`
	// Traverse only: 0 = called on the stack itself; 1..8 = the stack sits at position 0 of a holder with its OWN index
	// options (bit 0 of Holder-1: negative, bit 1: forward; bit 2: held as the expression of a Condition) and is
	// addressed as holder.Traverse(0, I): the second index is resolved with the options of the stack it indexes
	Holder int `json:"holder,omitempty"`

	// values
	Recv  string    `json:"recv,omitempty"` // stack | cond
	Seed  string    `json:"seed,omitempty"` // stack receivers: two separate instances of this catalogue entry are stored first (relations between two stored values of one Go type)
	Calls []C17Call `json:"calls,omitempty"`
}

// addr: the element an index addresses, given the index options (the C08 statement).
func addrOf(i, L int, neg, fwd bool) (int, bool) {
	if L == 0 {
		return 0, false
	}
	switch {
	case i < 0:
		if neg && i >= -L {
			return L + i, true
		}
		return 0, false
	case i > L-1:
		if fwd {
			return L - 1, true
		}
		return 0, false
	}
	return i, true
}

func idxClass(i, L int) string {
	switch {
	case i == math.MinInt || i == math.MinInt+1:
		return "MinInt"
	case i == math.MaxInt || i == math.MaxInt-1:
		return "MaxInt"
	case i == -1:
		return "-1"
	case i < -1:
		return "<-1"
	case i == L:
		return "i==Len"
	case i > L:
		return ">Len"
	}
	return "in-range"
}

var intParamMethods []methodRef

func init() { intParamMethods = computeIntParamMethods() }

func computeIntParamMethods() []methodRef {
	var out []methodRef
	for _, m := range stackMethods {
		for i := 1; i < m.Type.NumIn(); i++ {
			t := m.Type.In(i)
			if t.Kind() == reflect.Int || (m.Type.IsVariadic() && i == m.Type.NumIn()-1 && t.Elem().Kind() == reflect.Int) {
				out = append(out, m)
				break
			}
		}
	}
	return out
}

// followUp runs the whole query set on s; it must return normally.
func followUp(s stackage.Stack, twin stackage.Stack) string {
	return guard(func() {
		_ = s.String()
		_, _ = s.Unmarshal()
		_ = s.IsEqual(twin)
		_ = twin.IsEqual(s)
		for i := -1; i <= s.Len(); i++ {
			_, _ = s.Traverse(i)
			_, _ = s.Traverse(i, 0)
			_, _ = s.Index(i)
		}
		_ = s.IsNesting()
		_ = s.Len()
		_, _ = s.Front()
		_, _ = s.Back()
		_ = s.Valid()
		_ = s.Less(0, 1)
		_ = s.Kind()
	})
}

func followUpMutating(s stackage.Stack) string {
	return guard(func() {
		s.Reveal()
		s.Defrag()
		s.Reverse()
		s.Reset()
		s.Push("usable")
		if s.IsInit() && !s.IsReadOnly() && s.Len() != 1 && !s.IsFull() {
			panic(fmt.Sprintf("Push after Reset gave Len()=%d", s.Len()))
		}
	})
}

func runC08(c C08Case) (Stats, error) {
	if c.Mode == "grid" {
		return runC08Grid(c)
	}
	return runC08Values(c)
}

func runC08Grid(c C08Case) (st Stats, err error) {
	mk := func() (stackage.Stack, *ListModel) {
		s := newStackOfKind(c.Kind, c.Cap)
		ApplyAmbient(s, c.Amb&^AmbPushOK)
		m := &ListModel{Cap: c.Cap}
		switch c.Prep {
		case "remove":
			s.Push("junk")
			s.Remove(0)
		case "reset":
			s.Push("junk1", "junk2")
			s.Reset()
		}
		for i := 0; i < c.Len; i++ {
			var v any = tagValue(i + 1)
			if i == c.NilAt {
				v = nil
			}
			s.Push(v)
			m.Push(v)
		}
		if c.Prep == "insertfront" && c.Len > 0 && c.NilAt != 0 {
			first, _ := s.Index(0)
			s.Remove(0)
			s.Insert(first, 0)
		}
		if c.Neg {
			s.SetNegativeIndices(true)
		}
		if c.Fwd {
			s.SetForwardIndices(true)
		}
		if c.FIFO {
			s.SetFIFO(true)
			m.FIFO = true
		}
		return s, m
	}
	var s, twin stackage.Stack
	var m *ListModel
	if p := guard(func() { s, m = mk(); twin, _ = mk() }); p != "" {
		return st, violf("setup/panic", "%s", p)
	}
	L := c.Len
	before := Snapshot(s)
	opt := ""
	if c.Neg {
		opt += "+negidx"
	}
	if c.Fwd {
		opt += "+fwdidx"
	}
	key := fmt.Sprintf("%s/%s%s", c.Method, idxClass(c.I, L), opt)
	pos, addressed := addrOf(c.I, L, c.Neg, c.Fwd)
	plain := c.I >= 0 && c.I < L // addressed without any option
	newVal := "NEW"

	var v *Violation
	unchanged := func(what string) {
		if after := Snapshot(s); after != before && v == nil {
			v = violf(key+"/changed", "%s(%d,%d) on length %d%s %s but the stack changed: %s", c.Method, c.I, c.J, L, opt, what, diffSnap(before, after))
		}
	}
	contentIs := func(want []any, what string) {
		got := readContent(s)
		if fmt.Sprint(got) != fmt.Sprint(want) && v == nil {
			v = violf(key+"/content", "%s(%d,%d) on length %d%s: %s: content %v, want %v", c.Method, c.I, c.J, L, opt, what, got, want)
		}
	}
	p := guard(func() {
		switch c.Method {
		case "Index", "Traverse":
			var got any
			var ok bool
			switch {
			case c.Method == "Index":
				got, ok = s.Index(c.I)
			case c.Holder > 0:
				h := stackage.And()
				if (c.Holder-1)&4 != 0 {
					h.Push(stackage.Cond("holder", stackage.Eq, s))
				} else {
					h.Push(s)
				}
				h.SetNegativeIndices((c.Holder-1)&1 != 0)
				h.SetForwardIndices((c.Holder-1)&2 != 0)
				got, ok = h.Traverse(0, c.I)
			default:
				got, ok = s.Traverse(c.I)
			}
			if addressed {
				want := m.Elems[pos]
				if got != want || ok != (want != nil) {
					v = violf(key+"/result", "%s(%d) on length %d%s = (%#v,%v), want (%#v,%v)", c.Method, c.I, L, opt, got, ok, want, want != nil)
				}
			} else if got != nil || ok {
				v = violf(key+"/result", "%s(%d) on length %d%s = (%#v,%v) for an index that addresses nothing", c.Method, c.I, L, opt, got, ok)
			}
			unchanged("is a query")
		case "Remove":
			got, ok := s.Remove(c.I)
			if addressed && m.Elems[pos] != nil {
				want := m.Remove(pos)
				if got != want || !ok {
					v = violf(key+"/result", "Remove(%d) on length %d%s = (%#v,%v), want (%#v,true)", c.I, L, opt, got, ok, want)
				}
				contentIs(m.Elems, "after removal")
			} else {
				if ok || got != nil {
					v = violf(key+"/result", "Remove(%d) on length %d%s = (%#v,%v) for an index that addresses no element", c.I, L, opt, got, ok)
				}
				unchanged("reported failure")
			}
		case "Replace":
			ok := s.Replace(newVal, c.I)
			switch {
			case plain:
				if !ok {
					v = violf(key+"/result", "Replace(x,%d) on length %d returned false for an existing position", c.I, L)
				}
				m.Elems[c.I] = newVal
				contentIs(m.Elems, "after replacement")
			case addressed:
				// lenient: an index translated by an option may be honoured or refused
				if ok {
					m.Elems[pos] = newVal
					contentIs(m.Elems, "after option-translated replacement")
				} else {
					unchanged("reported failure")
				}
			default:
				if ok {
					v = violf(key+"/result", "Replace(x,%d) on length %d%s returned true for an index that addresses nothing", c.I, L, opt)
				}
				unchanged("must fail")
			}
		case "Swap":
			s.Swap(c.I, c.J)
			pj, aj := addrOf(c.J, L, c.Neg, c.Fwd)
			plainJ := c.J >= 0 && c.J < L
			switch {
			case plain && plainJ:
				m.Swap(c.I, c.J)
				contentIs(m.Elems, "after swap")
			case addressed && aj:
				// lenient under index options: untouched, or the translated positions swapped
				got := readContent(s)
				alt := m.Clone()
				alt.Swap(pos, pj)
				if fmt.Sprint(got) != fmt.Sprint(m.Elems) && fmt.Sprint(got) != fmt.Sprint(alt.Elems) {
					v = violf(key+"/content", "Swap(%d,%d) on length %d%s: content %v, want %v or %v", c.I, c.J, L, opt, got, m.Elems, alt.Elems)
				}
			default:
				unchanged("has an index that addresses nothing")
			}
		case "Insert":
			ok := s.Insert(newVal, c.I)
			want := m.Insert(newVal, c.I)
			if ok != want {
				v = violf(key+"/result", "Insert(x,%d) on length %d cap %d returned %v, model %v", c.I, L, c.Cap, ok, want)
			}
			contentIs(m.Elems, "after insert")
		case "Less":
			_ = s.Less(c.I, c.J)
			unchanged("is a query")
		case "Defrag":
			s.Defrag(c.I)
			got := nonNilAny(readContent(s))
			want := nonNilAny(m.Elems)
			// Defrag's own correctness is C19; here: nothing fabricated, no growth
			if len(got) > len(want) {
				v = violf(key+"/content", "Defrag(%d) grew the stack", c.I)
			}
		default:
			// an int-taking method this harness has no model for: it must return and keep the stack alive
			mref, _ := findMethod(stackMethods, c.Method)
			args, _ := synthArgs(mref.Type, true, &synthCtx{Len: L, Variant: c.I})
			if _, pp := callMethod(&s, mref, args); pp != "" {
				panic(pp)
			}
		}
	})
	if p != "" {
		return st, violf(key, "%s(%d,%d) on length %d%s (nil at %d, cap %d) panicked: %s", c.Method, c.I, c.J, L, opt, c.NilAt, c.Cap, p)
	}
	if v != nil {
		return st, v
	}
	if !s.IsInit() || s.Kind() != c.Kind {
		return st, violf(key+"/dead", "after %s(%d,%d) the stack reports IsInit=%v Kind=%q", c.Method, c.I, c.J, s.IsInit(), s.Kind())
	}
	if p := followUp(s, twin); p != "" {
		return st, violf(key+"/followup", "a query after %s(%d,%d) panicked: %s", c.Method, c.I, c.J, p)
	}
	if p := followUpMutating(s); p != "" {
		return st, violf(key+"/followup", "the stack is unusable after %s(%d,%d): %s", c.Method, c.I, c.J, p)
	}
	cls := idxClass(c.I, L)
	st.NonTrivial = cls != "in-range" || (c.Method == "Swap" || c.Method == "Less") && idxClass(c.J, L) != "in-range"
	st.Class("grid:" + c.Method)
	st.Class("idx:" + cls)
	st.Sig = fmt.Sprintf("grid|%s|%s|%s|%d|%d|%v%v|%d|%d|%d", c.Method, cls, idxClass(c.J, L), c.Len, c.NilAt, c.Neg, c.Fwd, c.Cap, c.I, c.Holder)
	if c.Holder > 0 {
		st.Class("grid:Traverse-through-holder-with-own-index-options")
	}
	return st, nil
}

func nonNilAny(in []any) []any {
	var out []any
	for _, x := range in {
		if x != nil {
			out = append(out, x)
		}
	}
	return out
}

// ---- values mode: every method taking `any` x the awkward catalogue -----------------

func anyParamMethod(m methodRef) bool {
	for i := 1; i < m.Type.NumIn(); i++ {
		t := m.Type.In(i)
		if t == tAny || t == tOperator || (m.Type.IsVariadic() && i == m.Type.NumIn()-1 && (t.Elem() == tAny)) {
			return true
		}
	}
	return false
}

func runC08Values(c C08Case) (st Stats, err error) {
	isCond := c.Recv == "cond" || c.Recv == "cond-noop"
	var sp, tw *stackage.Stack
	var cp *stackage.Condition
	if p := guard(func() {
		if isCond {
			cc := stackage.Cond("kw", stackage.Eq, "expr")
			if c.Recv == "cond-noop" {
				// initialised, keyword and expression set, but no operator
				cc = stackage.Condition{}
				cc.Init()
				cc.SetKeyword("kw")
				cc.SetExpression("expr")
			}
			cp = &cc
		} else {
			a := newStackOfKind(c.Kind, 0)
			b := newStackOfKind(c.Kind, 0)
			if c.Seed != "" {
				for _, e := range awkwardCatalogue {
					if e.Name == c.Seed {
						a.Push(e.Make(), e.Make())
						b.Push(e.Make(), e.Make())
					}
				}
			}
			a.Push("a", 2)
			b.Push("a", 2)
			sp, tw = &a, &b
		}
	}); p != "" {
		return st, violf("setup/panic", "%s", p)
	}
	ms := stackMethods
	tname := "Stack"
	if isCond {
		ms = condMethods
		tname = "Condition"
	}
	for i, call := range c.Calls {
		m, ok := findMethod(ms, call.Method)
		if !ok {
			continue
		}
		st.Sub++
		l := 1
		if !isCond && sp.IsInit() {
			l = sp.Len()
		}
		ctx := &synthCtx{Len: l, Variant: call.Variant, ForceAny: call.Arg}
		args, desc := synthArgs(m.Type, true, ctx)
		var recv any = sp
		if isCond {
			recv = cp
		}
		_, p := callMethod(recv, m, args)
		// the finding key names the method and the class of its first `any` argument
		argClass := strings.Trim(strings.Split(desc, " ")[0], "[]")
		key := fmt.Sprintf("%s.%s/%s", tname, m.Name, argClass)
		if p != "" {
			return st, violf(key, "call %d: %s.%s(%s) panicked: %s", i, tname, m.Name, desc, p)
		}
		// keep the twin in step for element-adding calls so that IsEqual compares like with like
		if !isCond {
			targs, _ := synthArgs(m.Type, true, &synthCtx{Len: l, Variant: call.Variant, ForceAny: call.Arg})
			guard(func() { callMethod(tw, m, targs) })
		}
		// follow-up queries on the receiver
		var fp string
		if isCond {
			fp = guard(func() {
				if !cp.IsInit() {
					return
				}
				_ = cp.String()
				_ = cp.Valid()
				_, _ = cp.Unmarshal()
				_ = cp.IsEqual(*cp)
				_ = cp.IsEqual(stackage.Cond("kw", stackage.Eq, "expr"))
				_ = cp.Len()
				_ = cp.IsNesting()
				_ = cp.IsFIFO()
				_, _ = cp.Evaluate(1)
				// and the same with the condition inside a stack
				h := stackage.And().Push(*cp, "z")
				_ = h.String()
				_, _ = h.Unmarshal()
				_ = h.IsEqual(stackage.And().Push(*cp, "z"))
				_, _ = h.Traverse(0, 0)
				h.Defrag()
				h.Reveal()
			})
		} else if sp.IsInit() {
			fp = followUp(*sp, *tw)
		}
		if fp != "" {
			return st, violf(key+"/followup", "call %d: after %s.%s(%s) a query panicked: %s", i, tname, m.Name, desc, fp)
		}
		st.Class("values:" + tname + "." + m.Name)
	}
	// the receiver ITSELF as the `any` argument of each of these methods (native, alias, pointer), on a fresh
	// mutex-enabled stack: a value like any other - the call returns normally
	if !isCond {
		for _, call := range c.Calls {
			m, ok := findMethod(ms, call.Method)
			if !ok || !anyParamMethod(m) {
				continue
			}
			for fi := 0; fi < 3; fi++ {
				self := newStackOfKind(c.Kind, 0).Push("s1", 2).SetMutex()
				var form any = self
				switch fi {
				case 1:
					form = MyStack(self)
				case 2:
					form = &self
				}
				args, _ := synthArgs(m.Type, true, &synthCtx{Len: 2, Variant: call.Variant | 1})
				for ai := range args {
					if args[ai].Type() == tAny {
						rv := reflect.New(tAny).Elem()
						rv.Set(reflect.ValueOf(form))
						args[ai] = rv
					}
				}
				if _, p := callMethod(&self, m, args); p != "" {
					return st, violf("Stack."+m.Name+"/self-as-argument", "Stack.%s(the receiver itself, form %d) on a mutex-enabled stack did not return normally: %s", m.Name, fi, p)
				}
			}
			st.Class("self-as-argument")
		}
	}
	if !isCond && sp.IsInit() && !sp.IsReadOnly() {
		if p := followUpMutating(*sp); p != "" {
			return st, violf("Stack/followup-mutators", "the stack is unusable after the calls: %s", p)
		}
	}
	st.NonTrivial = len(c.Calls) > 0
	sig := "values|" + c.Recv + c.Kind
	for _, call := range c.Calls {
		sig += fmt.Sprintf("|%s#%d%s", call.Method, call.Variant, call.Arg)
	}
	st.Sig = sig
	return st, nil
}

func enumC08(tier Tier, yield func(C08Case)) {
	cfg := 0
	for L := 0; L <= 4; L++ {
		idx := []int{math.MinInt, math.MinInt + 1, math.MaxInt - 1, math.MaxInt}
		for i := -L - 1; i <= L+1; i++ {
			idx = append(idx, i)
		}
		for _, nilAt := range []int{-1, 1} {
			if nilAt >= L && nilAt != -1 {
				continue
			}
			for opt := 0; opt < 4; opt++ {
				for _, capExtra := range []int{-1, 1} {
					cfg++
					kind := stackKinds[cfg%5]
					cp := 0
					if capExtra >= 0 {
						cp = L + capExtra
					}
					base := C08Case{Mode: "grid", Kind: kind, Cap: cp, Len: L, NilAt: nilAt, Neg: opt&1 != 0, Fwd: opt&2 != 0, FIFO: cfg%3 == 0,
						Prep: []string{"", "remove", "reset", "insertfront"}[cfg%4]}
					for _, m := range intParamMethods {
						two := m.Name == "Swap" || m.Name == "Less"
						for _, i := range idx {
							if two {
								for _, j := range idx {
									c := base
									c.Method, c.I, c.J = m.Name, i, j
									yield(c)
								}
								continue
							}
							c := base
							c.Method, c.I = m.Name, i
							yield(c)
							if m.Name == "Traverse" {
								for h := 1; h <= 8; h++ {
									c.Holder = h
									yield(c)
								}
							}
						}
					}
				}
			}
		}
	}
	// every method with an `any`/Operator parameter x the whole catalogue, singly
	for _, recv := range []string{"stack", "cond", "cond-noop"} {
		ms := stackMethods
		if recv != "stack" {
			ms = condMethods
		}
		for _, m := range ms {
			if !anyParamMethod(m) {
				continue
			}
			for v := 0; v < 2*len(awkwardCatalogue); v++ {
				yield(C08Case{Mode: "values", Recv: recv, Kind: stackKinds[v%5], Calls: []C17Call{{Method: m.Name, Variant: v}}})
			}
			// ... and every catalogue entry by name (exact coverage, and a replay that names its argument)
			for i, a := range awkwardCatalogue {
				yield(C08Case{Mode: "values", Recv: recv, Kind: stackKinds[i%5], Calls: []C17Call{{Method: m.Name, Variant: 1 + i%2, Arg: a.Name}}})
			}
		}
	}
	// two stored instances of every catalogue entry, then every method that takes indices or nothing
	// (relations between two stored values of one Go type: index arguments 0 and 1 are among the variants)
	isInt := map[string]bool{}
	for _, m := range intParamMethods {
		isInt[m.Name] = true
	}
	for _, m := range stackMethods {
		if m.Type.NumIn() != 1 && !isInt[m.Name] {
			continue
		}
		for i, a := range awkwardCatalogue {
			for v := 0; v < 4; v++ {
				if m.Type.NumIn() == 1 && v > 0 {
					break
				}
				yield(C08Case{Mode: "values", Recv: "stack", Kind: stackKinds[(i+v)%5], Seed: a.Name, Calls: []C17Call{{Method: m.Name, Variant: v}}})
			}
		}
	}
}

func genC08(t *rapid.T, tier Tier) C08Case {
	if rapid.IntRange(0, 3).Draw(t, "grid?") == 0 {
		L := rapid.IntRange(0, 8).Draw(t, "len")
		if rapid.IntRange(0, 9).Draw(t, "long?") == 0 {
			L = rapid.IntRange(15, 70).Draw(t, "longlen")
			if rapid.IntRange(0, 5).Draw(t, "huge?") == 0 {
				L = rapid.IntRange(250, 520).Draw(t, "hugelen")
			}
		}
		c := C08Case{Mode: "grid", Kind: rapid.SampledFrom(stackKinds).Draw(t, "kind"), Len: L, NilAt: -1, Neg: rapid.Bool().Draw(t, "neg"), Fwd: rapid.Bool().Draw(t, "fwd"), FIFO: rapid.Bool().Draw(t, "fifo")}
		if L > 0 && rapid.Bool().Draw(t, "hasnil") {
			c.NilAt = rapid.IntRange(0, L-1).Draw(t, "nilat")
		}
		if rapid.Bool().Draw(t, "hascap") {
			c.Cap = L + rapid.IntRange(0, 2).Draw(t, "capextra")
		}
		c.Prep = rapid.SampledFrom([]string{"", "remove", "reset", "insertfront"}).Draw(t, "prep")
		c.Amb = drawAmbient(t, false)
		c.Method = intParamMethods[rapid.IntRange(0, len(intParamMethods)-1).Draw(t, "method")].Name
		pick := func(label string) int {
			switch rapid.IntRange(0, 5).Draw(t, label+"class") {
			case 0:
				return rapid.SampledFrom([]int{math.MinInt, math.MinInt + 1, math.MaxInt, math.MaxInt - 1, math.MinInt / 2, math.MaxInt / 2}).Draw(t, label+"ext")
			case 1:
				return rapid.IntRange(-100, 100).Draw(t, label+"wide")
			}
			return rapid.IntRange(-L-2, L+2).Draw(t, label)
		}
		c.I, c.J = pick("i"), pick("j")
		if c.Method == "Traverse" {
			c.Holder = rapid.IntRange(0, 8).Draw(t, "holder")
		}
		return c
	}
	c := C08Case{Mode: "values", Recv: "stack", Kind: rapid.SampledFrom(stackKinds).Draw(t, "kind")}
	if rapid.IntRange(0, 3).Draw(t, "seed?") == 0 {
		c.Seed = awkwardCatalogue[rapid.IntRange(0, len(awkwardCatalogue)-1).Draw(t, "seed")].Name
	}
	ms := stackMethods
	if rapid.IntRange(0, 3).Draw(t, "cond") == 0 {
		c.Recv = rapid.SampledFrom([]string{"cond", "cond-noop"}).Draw(t, "condkind")
		ms = condMethods
	}
	// prefer methods with any-parameters
	var anyMs []methodRef
	for _, m := range ms {
		if anyParamMethod(m) {
			anyMs = append(anyMs, m)
		}
	}
	n := rapid.IntRange(1, 5).Draw(t, "ncalls")
	for i := 0; i < n; i++ {
		pool := anyMs
		if rapid.IntRange(0, 3).Draw(t, "anymethod") == 0 {
			pool = ms
		}
		name := pool[rapid.IntRange(0, len(pool)-1).Draw(t, "method")].Name
		if name == "Free" {
			name = "Len"
		}
		c.Calls = append(c.Calls, C17Call{Method: name, Variant: rapid.IntRange(0, 5000).Draw(t, "variant")})
	}
	return c
}

func init() {
	Register(Def[C08Case]{
		ID: "C08",
		Rule: "exhaustive index grid: every Stack method with an int parameter (found by reflection: Index, Remove, Replace, Swap, Insert, Traverse, Less, Defrag, ...) x index values {MinInt, MinInt+1, -Len-1..Len+1, MaxInt-1, MaxInt} (all pairs for two-index methods) x lengths 0..4 (with/without a nil slot) x negative/forward index options x capacity none/Len+1 x kind x LIFO/FIFO x stacks with a history (after Remove, Reset, front Insert: re-allocated backing arrays); " +
			"exhaustive value catalogue: every Stack and Condition method with an `any`/Operator parameter x 3 passes over a catalogue of 65 awkward values (typed nils of any depth, zero Stacks/Conditions/aliases, funcs, chans, maps, NaN, private-field structs, pointers to pointers, operator-less Conditions, ...); " +
			"rapid: wider indices and lengths, and sequences of 1..5 awkward calls on one Stack/Condition. Oracle: no panic; an index that addresses nothing => failure flag and identical snapshot (public getters + VerifDump); addressed indices act per the list model (option-translated Replace/Swap leniently); IsInit/Kind kept; " +
			"afterwards String, Unmarshal, IsEqual (both ways, against a twin), Traverse/Index of every position, IsNesting, Front/Back, Valid, Less and then Reveal, Defrag, Reverse, Reset, Push all return normally. non-trivial = boundary index class (not in-range) or any awkward-value call; distinct = (method, index class, length, options) cell or (method, variant) sequence",
		Gen:      genC08,
		Run:      runC08,
		Enum:     enumC08,
		EnumNote: "the full index grid (lengths 0..4 x nil slot x index options x capacity) for every int-taking Stack method, and every any-taking Stack/Condition method x the awkward catalogue",
		Floors:   map[string]float64{"idx:MinInt": 0.02, "idx:-1": 0.02, "idx:i==Len": 0.01},
		Assumptions: []string{"whether Replace/Swap/Insert honour the negative/forward index options is undocumented: with an option on, an index inside the translated range may be refused or act on the translated position",
			"a user type whose String() panics is not in the catalogue (user code panicking is not the library's defect)"},
	})
}
