package props

// C10 — with mutual exclusion enabled, concurrent mutators act atomically.
//
// (A) harness-owned schedules: a cooperative scheduler runs one goroutine at a
//     time; a goroutine yields at every "lock.want" event of the shared stack
//     (verifPoint hook) and at each operation boundary; the schedule (drawn by
//     rapid, or enumerated exhaustively) picks who continues. Every execution is
//     a pure function of (programs, schedule).
// (B) free-running executions (all cases in the -race stage): the same programs
//     run by real parallel goroutines behind a start barrier; the observed
//     history is checked the same way and the race detector watches.

import (
	"fmt"
	"os"
	"strings"
	"sync"
	"time"

	stackage "github.com/JesseCoretta/go-stackage"
	"pgregory.net/rapid"
)

type C10Op struct {
	Op string `json:"op"` // push pop insert remove replace swap reverse reset
	A  int    `json:"a,omitempty"`
	B  int    `json:"b,omitempty"`
	N  int    `json:"n,omitempty"` // push: batch size 1..2
}

type C10Case struct {
	Kind      string    `json:"kind"`
	FIFO      bool      `json:"fifo"`
	Cap       int       `json:"cap"`
	Init      int       `json:"init"`
	Progs     [][]C10Op `json:"progs"`
	Sched     []int     `json:"sched,omitempty"`
	AllSched  bool      `json:"allsched,omitempty"`  // enumerate every schedule (bounded by MaxSched)
	Policy    int       `json:"policy,omitempty"`    // push policy installed on the shared stack: 0 none, 1 rejects the second value of every batch, 2 rejects everything pushed by goroutine 0
	YieldRel  bool      `json:"yieldrel,omitempty"`  // also yield right after every unlock (code running after the critical section is interleaved too)
	YieldHeld bool      `json:"yieldheld,omitempty"` // also yield right after every lock acquisition: the others run while the lock is held (they must block, or at least not write)
	Free      bool      `json:"free,omitempty"`      // free-running (no scheduler)
	NegIdx    bool      `json:"negidx,omitempty"`    // SetNegativeIndices / SetForwardIndices on the shared stack: Remove then takes relative
	FwdIdx    bool      `json:"fwdidx,omitempty"`    // indices, whose meaning depends on the length at the moment the call takes effect
	// a longer past (stacks without a capacity limit): the initial elements are pushed, then further values one at a time
	// until Hist slots exist, then those are popped again; the initial length is (capacity of the slot slice after that
	// growth)/Frac + D, i.e. right at a fraction of the backing array at which housekeeping (shrinking, re-allocation)
	// would happen. Init is ignored when Hist>0.
	Hist int `json:"hist,omitempty"`
	Frac int `json:"frac,omitempty"`
	D    int `json:"d,omitempty"`
}

var c10CapMemo = map[int]int{}

// c10InitLen: the initial length of the shared stack (see Hist).
func c10InitLen(c C10Case) int {
	if c.Hist <= 0 || c.Cap != 0 || c.Frac <= 0 {
		return c.Init
	}
	cp, ok := c10CapMemo[c.Hist]
	if !ok {
		probe := stackage.Basic()
		for i := 0; i < c.Hist; i++ {
			probe.Push(i)
		}
		_, cp = stackage.VerifBacking(probe)
		c10CapMemo[c.Hist] = cp
	}
	n := cp/c.Frac + c.D
	if n < 0 {
		n = 0
	}
	if n > c.Hist {
		n = c.Hist
	}
	return n
}

var errRejected = fmt.Errorf("rejected by the push policy")

type c10Result struct {
	v    any
	ok   bool
	void bool
}

func (r c10Result) String() string {
	if r.void {
		return "-"
	}
	return fmt.Sprintf("(%v,%v)", r.v, r.ok)
}

// c10Policy is the push policy of the case being checked (set by runC10; the model consults it too).
var c10Policy int

// c10Idx: the index options of the case being checked (the model resolves Remove's index with them).
var c10Idx struct{ neg, fwd bool }

func c10Rejects(policy int, v any) bool {
	str, _ := v.(string)
	switch policy {
	case 1:
		return strings.HasSuffix(str, ".1")
	case 2:
		return strings.HasPrefix(str, "g0.")
	}
	return false
}

// value pushed by goroutine g, op index i, batch position k — unique and recognisable
func c10Val(g, i, k int) any { return fmt.Sprintf("g%d.%d.%d", g, i, k) }

// applyModel executes one op on the list model, returning the result the real call must give.
func c10ApplyModel(m *ListModel, g, i int, op C10Op) c10Result {
	switch op.Op {
	case "push":
		for k := 0; k < op.N; k++ {
			if m.Full() {
				continue
			}
			if c10Rejects(c10Policy, c10Val(g, i, k)) {
				break // the first rejection stops the batch
			}
			m.Push(c10Val(g, i, k))
		}
		return c10Result{void: true}
	case "pop":
		v, ex := m.Pop()
		return c10Result{v: v, ok: ex}
	case "insert":
		return c10Result{ok: m.Insert(c10Val(g, i, 0), op.A)}
	case "remove":
		a := op.A
		switch {
		case a < 0 && c10Idx.neg && -a <= m.Len():
			a = m.Len() + a // -k addresses the k-th element from the end, as the stack stands when the call takes effect
		case a >= m.Len() && c10Idx.fwd && m.Len() > 0:
			a = m.Len() - 1 // any oversize index addresses the last element
		}
		if a < 0 || a >= m.Len() {
			return c10Result{}
		}
		return c10Result{v: m.Remove(a), ok: true}
	case "replace":
		return c10Result{ok: m.Replace(c10Val(g, i, 0), op.A)}
	case "swap":
		if op.A >= 0 && op.A < m.Len() && op.B >= 0 && op.B < m.Len() {
			m.Swap(op.A, op.B)
		}
		return c10Result{void: true}
	case "reverse":
		m.Reverse()
		return c10Result{void: true}
	case "reset":
		m.Reset()
		return c10Result{void: true}
	}
	return c10Result{void: true} // ("setmutex": enabling what is enabled already changes nothing)
}

func c10ApplyReal(s stackage.Stack, g, i int, op C10Op) c10Result {
	switch op.Op {
	case "push":
		vals := make([]any, op.N)
		for k := range vals {
			vals[k] = c10Val(g, i, k)
		}
		s.Push(vals...)
		return c10Result{void: true}
	case "pop":
		v, ok := s.Pop()
		return c10Result{v: v, ok: ok}
	case "insert":
		return c10Result{ok: s.Insert(c10Val(g, i, 0), op.A)}
	case "remove":
		v, ok := s.Remove(op.A)
		return c10Result{v: v, ok: ok}
	case "replace":
		return c10Result{ok: s.Replace(c10Val(g, i, 0), op.A)}
	case "swap":
		s.Swap(op.A, op.B)
		return c10Result{void: true}
	case "reverse":
		s.Reverse()
		return c10Result{void: true}
	case "reset":
		s.Reset()
		return c10Result{void: true}
	case "setmutex":
		s.SetMutex()
		return c10Result{void: true}
	}
	return c10Result{void: true}
}

// linearizable: is there an interleaving of the programs (respecting each
// program's own order) that reproduces every return value and the final content?
func c10Linearizable(init *ListModel, progs [][]C10Op, results [][]c10Result, final []any) bool {
	pos := make([]int, len(progs))
	var rec func(m *ListModel) bool
	rec = func(m *ListModel) bool {
		done := true
		for g := range progs {
			if pos[g] < len(results[g]) {
				done = false
			}
		}
		if done {
			return fmt.Sprint(m.Elems) == fmt.Sprint(final) && len(m.Elems) == len(final)
		}
		for g := range progs {
			i := pos[g]
			if i >= len(results[g]) {
				continue
			}
			m2 := m.Clone()
			want := c10ApplyModel(m2, g, i, progs[g][i])
			if want.String() != results[g][i].String() {
				continue
			}
			pos[g]++
			if rec(m2) {
				pos[g]--
				return true
			}
			pos[g]--
		}
		return false
	}
	return rec(init.Clone())
}

func c10Setup(c C10Case) (stackage.Stack, *ListModel, uintptr) {
	s := newStackOfKind(c.Kind, c.Cap)
	m := &ListModel{Cap: c.Cap, FIFO: c.FIFO}
	n0 := c10InitLen(c)
	for i := 0; i < n0; i++ {
		v := fmt.Sprintf("init%d", i)
		s.Push(v)
		m.Push(v)
	}
	if c.Hist > 0 && c.Cap == 0 {
		for i := n0; i < c.Hist; i++ {
			s.Push(fmt.Sprintf("past%d", i))
		}
		for i := n0; i < c.Hist; i++ {
			s.Pop()
		}
	}
	if c.FIFO {
		s.SetFIFO(true)
	}
	if c.Policy != 0 {
		pol := c.Policy
		s.SetPushPolicy(func(x ...any) error {
			if len(x) == 1 && c10Rejects(pol, x[0]) {
				return errRejected
			}
			return nil
		})
	}
	if c.NegIdx {
		s.SetNegativeIndices(true)
	}
	if c.FwdIdx {
		s.SetForwardIndices(true)
	}
	s.SetMutex()
	id, _ := stackage.VerifDump(s)["ptr"].(uintptr)
	return s, m, id
}

// slotIDs renders everything the lock protects: the slot vector and the configuration record
// (the lock bookkeeping included), so that any write made while nobody holds the lock shows.
func slotIDs(s stackage.Stack) string {
	d := stackage.VerifDump(s)
	var b strings.Builder
	slots, _ := d["slots"].([]any)
	for i := 1; i < len(slots); i++ {
		if sm, ok := slots[i].(map[string]any); ok {
			fmt.Fprintf(&b, "%v|", sm["val"])
		} else {
			b.WriteString("nil|")
		}
	}
	arr, cp := stackage.VerifBacking(s)
	fmt.Fprintf(&b, " backing: array=%#x cap=%d", arr, cp)
	cfg := cfgOf(d)
	fmt.Fprintf(&b, " cfg: ldr=%v opt=%v cap=%v ord=%v typ=%v err=%v mtx=%v id=%v", cfg["ldr"], cfg["opt"], cfg["cap"], cfg["ord"], cfg["typ"], cfg["err"], cfg["mtxptr"], cfg["id"])
	return b.String()
}

type c10Outcome struct {
	results        [][]c10Result
	final          []any
	branching      []int
	choices        []int
	viol           *Violation
	switchedAtWant bool
	history        []string
}

// c10RunScheduled executes the programs under the cooperative scheduler with the given schedule prefix.
func c10RunScheduled(c C10Case, sched []int) (out c10Outcome) {
	s, _, sid := c10Setup(c)
	G := len(c.Progs)
	type event struct {
		g    int
		kind string // want opdone finished panic
		msg  string
	}
	events := make(chan event)
	resume := make([]chan struct{}, G)
	state := make([]string, G) // start want opdone finished
	out.results = make([][]c10Result, G)
	cur := -1
	owner := -1
	lastReleased := ""
	var hookViol *Violation

	stackage.VerifHook = func(ev string, id uintptr) {
		if id != sid || cur < 0 {
			return
		}
		g := cur
		switch ev {
		case "lock.want":
			events <- event{g: g, kind: "want"}
			<-resume[g]
		case "lock.held":
			if owner >= 0 && owner != g && hookViol == nil {
				hookViol = violf("mutual-exclusion-broken", "goroutine %d acquired the stack's lock while goroutine %d holds it", g, owner)
			}
			owner = g
			if now := slotIDs(s); lastReleased != "" && now != lastReleased && hookViol == nil {
				hookViol = violf("content-changed-outside-lock", "the slot vector changed while nobody held the lock: %s -> %s", lastReleased, now)
			}
		case "lock.ready":
			if c.YieldHeld {
				// park INSIDE the critical section (the lock is held and its bookkeeping written): whoever
				// runs now must end up waiting for the lock; anything that changes the protected state
				// meanwhile wrote without holding it
				atHeld := slotIDs(s)
				events <- event{g: g, kind: "held"}
				<-resume[g]
				if now := slotIDs(s); now != atHeld && hookViol == nil {
					hookViol = violf("write-while-another-goroutine-holds-the-lock", "the protected state changed while goroutine %d held the lock and was parked: %s -> %s", g, atHeld, now)
				}
			}
		case "lock.released":
			owner = -1
			lastReleased = slotIDs(s)
			if c.YieldRel {
				events <- event{g: g, kind: "released"}
				<-resume[g]
			}
		}
	}
	defer func() { stackage.VerifHook = nil }()

	for g := 0; g < G; g++ {
		resume[g] = make(chan struct{})
		state[g] = "start"
		go func(g int) {
			<-resume[g]
			defer func() {
				if r := recover(); r != nil {
					events <- event{g: g, kind: "panic", msg: fmt.Sprint(r)}
				}
			}()
			for i, op := range c.Progs[g] {
				res := c10ApplyReal(s, g, i, op)
				out.results[g] = append(out.results[g], res)
				if i < len(c.Progs[g])-1 {
					events <- event{g: g, kind: "opdone"}
					<-resume[g]
				}
			}
			events <- event{g: g, kind: "finished"}
		}(g)
	}

	k := 0
	for {
		var cand []int
		unfinished := 0
		for g := 0; g < G; g++ {
			if state[g] == "finished" {
				continue
			}
			unfinished++
			if state[g] == "want" && owner >= 0 {
				if owner == g {
					out.viol = violf("self-deadlock", "goroutine %d requests the stack lock while holding it; history %v", g, out.history)
					return
				}
				continue // the lock is held by a parked goroutine
			}
			cand = append(cand, g)
		}
		if unfinished == 0 {
			break
		}
		if len(cand) == 0 {
			out.viol = violf("deadlock", "all goroutines are parked and none can run (lock owner %d); history %v", owner, out.history)
			return
		}
		choice := 0
		if k < len(sched) {
			choice = posMod(sched[k], len(cand))
		}
		out.branching = append(out.branching, len(cand))
		out.choices = append(out.choices, choice)
		k++
		g := cand[choice]
		// did we leave somebody parked between its lock.want and lock.held?
		for _, o := range cand {
			if o != g && state[o] == "want" {
				out.switchedAtWant = true
			}
		}
		cur = g
		resume[g] <- struct{}{}
		var ev event
		select {
		case ev = <-events:
		case <-time.After(20 * time.Second):
			out.viol = violf("blocked", "goroutine %d did not reach its next yield point within 20s (lock owner %d); history %v", g, owner, out.history)
			return
		}
		cur = -1
		switch ev.kind {
		case "panic":
			out.viol = violf("panic", "goroutine %d panicked: %s; history %v", ev.g, ev.msg, out.history)
			return
		case "want", "opdone", "finished", "released", "held":
			state[ev.g] = ev.kind
			out.history = append(out.history, fmt.Sprintf("g%d:%s", ev.g, ev.kind))
		}
		if (ev.kind == "opdone" || ev.kind == "finished") && owner == ev.g {
			out.viol = violf("lock-leaked", "goroutine %d finished an operation still holding the lock; history %v", ev.g, out.history)
			return
		}
		if hookViol != nil {
			hookViol.Msg += fmt.Sprintf("; history %v", out.history)
			out.viol = hookViol
			return
		}
	}
	if now := slotIDs(s); lastReleased != "" && now != lastReleased {
		out.viol = violf("content-changed-outside-lock", "the slot vector changed after the last unlock: %s -> %s", lastReleased, now)
		return
	}
	out.final, out.viol = c10Final(s, c)
	return
}

// c10Final reads the final content and checks the integrity invariants.
func c10Final(s stackage.Stack, c C10Case) ([]any, *Violation) {
	if !s.IsInit() {
		return nil, violf("stack-destroyed", "the stack is no longer initialised after the run (its configuration was removed as if it were an element)")
	}
	wantCap := -1
	if c.Cap > 0 {
		wantCap = c.Cap
	}
	if s.Kind() != c.Kind || s.Cap() != wantCap || s.IsFIFO() != c.FIFO {
		return nil, violf("config-changed", "Kind=%s Cap=%d IsFIFO=%v after the run", s.Kind(), s.Cap(), s.IsFIFO())
	}
	final := readContent(s)
	if c.Cap > 0 && len(final) > c.Cap {
		return final, violf("capacity-exceeded", "Len()=%d exceeds capacity %d", len(final), c.Cap)
	}
	return final, nil
}

func c10CheckHistory(c C10Case, results [][]c10Result, final []any, how string) *Violation {
	_, m, _ := c10SetupModelOnly(c)
	// every returned / remaining element was pushed or initial, at most once
	seen := map[string]int{}
	note := func(v any) *Violation {
		if v == nil {
			return nil
		}
		str, ok := v.(string)
		if !ok || !(strings.HasPrefix(str, "init") || strings.HasPrefix(str, "g")) {
			return violf("fabricated-or-config-returned", "%s: a value that was never pushed was returned or stored: %#v (%T)", how, v, v)
		}
		seen[str]++
		return nil
	}
	for _, rs := range results {
		for _, r := range rs {
			if !r.void {
				if v := note(r.v); v != nil {
					return v
				}
			}
		}
	}
	for _, e := range final {
		if v := note(e); v != nil {
			return v
		}
	}
	for k, n := range seen {
		if n > 1 {
			// replaced elements vanish, popped/removed ones are returned once, remaining ones are in final once
			return violf("duplicated", "%s: element %s appears %d times among returned and remaining elements", how, k, n)
		}
	}
	if !c10Linearizable(m, c.Progs, results, final) {
		return violf("not-linearizable", "%s: no sequential order of the operations reproduces the return values %v and the final content %v (programs %+v, initial %v)", how, results, final, c.Progs, m.Elems)
	}
	return nil
}

func c10SetupModelOnly(c C10Case) (struct{}, *ListModel, struct{}) {
	m := &ListModel{Cap: c.Cap, FIFO: c.FIFO}
	for i, n0 := 0, c10InitLen(c); i < n0; i++ {
		m.Push(fmt.Sprintf("init%d", i))
	}
	return struct{}{}, m, struct{}{}
}

const c10MaxSched = 6000

func lengthSensitive(op string) bool {
	switch op {
	case "pop", "remove", "insert", "swap", "replace":
		return true
	}
	return false
}

func lengthChanging(op string) bool {
	switch op {
	case "push", "pop", "remove", "insert", "reset":
		return true
	}
	return false
}

func runC10(c C10Case) (st Stats, err error) {
	c10Policy = c.Policy
	c10Idx.neg, c10Idx.fwd = c.NegIdx, c.FwdIdx
	defer func() { c10Policy = 0; c10Idx.neg, c10Idx.fwd = false, false }()
	if c.NegIdx || c.FwdIdx {
		st.Class("index-options")
	}
	if c.Policy != 0 {
		st.Class("push-policy-installed")
	}
	if c.Hist > 0 && c.Cap == 0 {
		st.Class("grown-and-drained-past")
	}
	sens, chg := 0, 0
	for _, p := range c.Progs {
		s1, c1 := false, false
		for _, op := range p {
			if lengthSensitive(op.Op) {
				s1 = true
			}
			if lengthChanging(op.Op) {
				c1 = true
			}
		}
		if s1 {
			sens++
		}
		if c1 {
			chg++
		}
	}
	interesting := sens >= 1 && chg >= 2 || sens >= 2 && chg >= 1

	if c.Free {
		return runC10Free(c, interesting)
	}

	runOne := func(sched []int) (c10Outcome, *Violation) {
		out := c10RunScheduled(c, sched)
		if out.viol != nil {
			out.viol.Msg += fmt.Sprintf("\n  schedule %v programs %+v init %d cap %d fifo %v", out.choices, c.Progs, c.Init, c.Cap, c.FIFO)
			return out, out.viol
		}
		if v := c10CheckHistory(c, out.results, out.final, fmt.Sprintf("schedule %v", out.choices)); v != nil {
			v.Msg += fmt.Sprintf("\n  history %v", out.history)
			return out, v
		}
		return out, nil
	}

	if !c.AllSched {
		out, v := runOne(c.Sched)
		st.Sub = 1
		if v != nil {
			return st, v
		}
		if out.switchedAtWant && interesting {
			st.NonTrivial = true
			st.Class("switched-between-want-and-held")
		}
		st.Sig = fmt.Sprintf("%+v|%v", c, out.choices)
		return st, nil
	}

	// enumerate every schedule (stateless search: re-execute from scratch with the next choice vector)
	sched := []int{}
	n := 0
	switched := false
	for {
		out, v := runOne(sched)
		n++
		if v != nil {
			st.Sub = n
			return st, v
		}
		if out.switchedAtWant {
			switched = true
		}
		// next choice vector
		ch := append([]int{}, out.choices...)
		p := len(ch) - 1
		for p >= 0 && ch[p]+1 >= out.branching[p] {
			p--
		}
		if p < 0 {
			break
		}
		ch[p]++
		sched = ch[:p+1]
		if n >= c10MaxSched {
			st.Class("schedule-enumeration-truncated")
			break
		}
	}
	st.Sub = n
	st.Class("all-schedules")
	if switched && interesting {
		st.NonTrivial = true
		st.Class("switched-between-want-and-held")
	}
	return st, nil
}

func runC10Free(c C10Case, interesting bool) (st Stats, err error) {
	s, _, _ := c10Setup(c)
	G := len(c.Progs)
	results := make([][]c10Result, G)
	// every goroutine also owns a PRIVATE stack of the same make (mutex included) and repeats each of its operations
	// there: nobody else touches it, so its answers and final content are those of a sequential run of that one
	// program - whatever the other goroutines do to other stacks meanwhile (package-level scratch state would show here)
	priv := make([]stackage.Stack, G)
	privModel := make([]*ListModel, G)
	privResults := make([][]c10Result, G)
	for g := 0; g < G; g++ {
		priv[g], privModel[g], _ = c10Setup(c)
	}
	panics := make([]string, G)
	start := make(chan struct{})
	var wg sync.WaitGroup
	for g := 0; g < G; g++ {
		wg.Add(1)
		go func(g int) {
			defer wg.Done()
			defer func() {
				if r := recover(); r != nil {
					panics[g] = fmt.Sprint(r)
				}
			}()
			<-start
			for i, op := range c.Progs[g] {
				results[g] = append(results[g], c10ApplyReal(s, g, i, op))
				privResults[g] = append(privResults[g], c10ApplyReal(priv[g], g, i, op))
			}
		}(g)
	}
	close(start)
	done := make(chan struct{})
	go func() { wg.Wait(); close(done) }()
	select {
	case <-done:
	case <-time.After(30 * time.Second):
		return st, violf("free/deadlock", "free-running goroutines did not finish within 30s; programs %+v", c.Progs)
	}
	for g, p := range panics {
		if p != "" {
			return st, violf("free/panic", "goroutine %d panicked: %s; programs %+v init %d cap %d fifo %v; partial results %v", g, p, c.Progs, c.Init, c.Cap, c.FIFO, results)
		}
	}
	final, v := c10Final(s, c)
	if v != nil {
		v.Key = "free/" + v.Key
		v.Msg += fmt.Sprintf("; programs %+v init %d; results %v", c.Progs, c.Init, results)
		return st, v
	}
	for g := 0; g < G; g++ {
		var want []c10Result
		for i, op := range c.Progs[g] {
			want = append(want, c10ApplyModel(privModel[g], g, i, op))
		}
		got, pv := c10Final(priv[g], c)
		if pv != nil {
			pv.Key = "free/private-stack/" + pv.Key
			return st, pv
		}
		if fmt.Sprint(privResults[g]) != fmt.Sprint(want) || fmt.Sprint(got) != fmt.Sprint(privModel[g].Elems) {
			return st, violf("free/private-stack", "goroutine %d's own stack (touched by nobody else) answered %v and holds %v; a sequential run of its program %+v answers %v and leaves %v", g, privResults[g], got, c.Progs[g], want, privModel[g].Elems)
		}
	}
	if v := c10CheckHistory(c, results, final, "free-running"); v != nil {
		v.Key = "free/" + v.Key
		return st, v
	}
	st.Class("free-running")
	st.NonTrivial = interesting
	return st, nil
}

// ---- generators ----------------------------------------------------------------------

func genC10Op(t *rapid.T, init int) C10Op {
	o := C10Op{Op: rapid.SampledFrom([]string{"push", "push", "pop", "pop", "insert", "remove", "remove", "replace", "swap", "reverse", "reset", "setmutex"}).Draw(t, "op")}
	switch o.Op {
	case "push":
		o.N = rapid.IntRange(1, 2).Draw(t, "n")
	case "insert", "remove", "replace":
		o.A = rapid.IntRange(0, init).Draw(t, "a")
	case "swap":
		o.A = rapid.IntRange(0, init).Draw(t, "a")
		o.B = rapid.IntRange(0, init).Draw(t, "b")
	}
	return o
}

func genC10(t *rapid.T, tier Tier) C10Case {
	c := C10Case{Kind: rapid.SampledFrom(stackKinds).Draw(t, "kind"), FIFO: rapid.Bool().Draw(t, "fifo"), Init: rapid.IntRange(0, 3).Draw(t, "init")}
	if rapid.Bool().Draw(t, "hascap") {
		c.Cap = c.Init + rapid.IntRange(0, 2).Draw(t, "capextra")
		if c.Cap == 0 {
			c.Cap = 1
		}
	}
	if c.Cap == 0 && rapid.IntRange(0, 5).Draw(t, "hist?") == 0 {
		// a longer past: grown to Hist slots and popped back to a fraction of the backing array
		c.Hist = rapid.SampledFrom([]int{40, 70, 100, 130, 200, 300, 600}).Draw(t, "hist")
		c.Frac = rapid.SampledFrom([]int{4, 4, 2, 8}).Draw(t, "frac")
		c.D = rapid.IntRange(-1, 2).Draw(t, "d")
	}
	if rapid.IntRange(0, 3).Draw(t, "policy?") == 0 {
		c.Policy = rapid.IntRange(1, 2).Draw(t, "policy")
	}
	if rapid.IntRange(0, 2).Draw(t, "idxopts?") == 0 {
		c.NegIdx = rapid.Bool().Draw(t, "negidx")
		c.FwdIdx = !c.NegIdx || rapid.Bool().Draw(t, "fwdidx")
	}
	G := rapid.IntRange(2, 3).Draw(t, "goroutines")
	total := 0
	for g := 0; g < G; g++ {
		n := rapid.IntRange(1, 3).Draw(t, "nops")
		var p []C10Op
		for i := 0; i < n; i++ {
			o := genC10Op(t, c.Init)
			if o.Op == "remove" && (c.NegIdx || c.FwdIdx) && rapid.Bool().Draw(t, "relative") {
				o.A = rapid.SampledFrom([]int{-1, -2, -c.Init, c.Init, c.Init + 1, c.Init + 5}).Draw(t, "rel")
			}
			p = append(p, o)
		}
		total += n
		c.Progs = append(c.Progs, p)
	}
	if os.Getenv("VERIF_RACE") != "" {
		c.Free = true
		return c
	}
	if rapid.IntRange(0, 9).Draw(t, "free") == 0 {
		c.Free = true
		return c
	}
	c.YieldRel = rapid.Bool().Draw(t, "yieldrel")
	c.YieldHeld = rapid.IntRange(0, 2).Draw(t, "yieldheld") == 0
	for i := 0; i < 6*total+4; i++ {
		c.Sched = append(c.Sched, rapid.IntRange(0, 2).Draw(t, "pick"))
	}
	return c
}

func enumC10(tier Tier, yield func(C10Case)) {
	if os.Getenv("VERIF_RACE") != "" {
		return
	}
	// all schedules of the small configurations: 2 goroutines x <=2 ops over a reduced alphabet, lengths 0..2
	alphabet := func(init int) []C10Op {
		a := []C10Op{{Op: "push", N: 1}, {Op: "pop"}, {Op: "insert", A: 0}, {Op: "remove", A: 0}, {Op: "replace", A: 0}, {Op: "reverse"}, {Op: "reset"}, {Op: "setmutex"}}
		if init >= 2 {
			a = append(a, C10Op{Op: "remove", A: init - 1}, C10Op{Op: "swap", A: 0, B: init - 1}, C10Op{Op: "insert", A: init - 1})
		}
		return a
	}
	maxOps := 2
	for init := 0; init <= 2; init++ {
		al := alphabet(init)
		var progs [][]C10Op
		for _, a := range al {
			progs = append(progs, []C10Op{a})
		}
		if maxOps >= 2 {
			for _, a := range al {
				for _, b := range al {
					progs = append(progs, []C10Op{a, b})
				}
			}
		}
		cfgN := 0
		for i, p1 := range progs {
			for j, p2 := range progs {
				if j < i {
					continue // symmetric
				}
				// thorough: every pair; quick: single-op pairs plus a deterministic third of the two-op pairs
				if !tier.Thorough && len(p1)+len(p2) > 2 && (i*31+j*17+init)%7 != 0 {
					continue
				}
				cfgN++
				fifo := cfgN%2 == 0
				cp := 0
				if cfgN%3 == 0 {
					cp = init + 1
				}
				yield(C10Case{Kind: stackKinds[cfgN%5], FIFO: fifo, Cap: cp, Init: init, Progs: [][]C10Op{p1, p2}, AllSched: true})
				if p1[0].Op == "push" && (len(p1)+len(p2) == 2 || tier.Thorough) {
					// the same with a rejecting push policy (the error is recorded while the lock is held)
					q1 := append([]C10Op{{Op: "push", N: 2}}, p1[1:]...)
					yield(C10Case{Kind: stackKinds[cfgN%5], FIFO: fifo, Cap: cp, Init: init, Progs: [][]C10Op{q1, p2}, AllSched: true, Policy: 1 + cfgN%2})
				}
				if len(p1)+len(p2) == 2 || (tier.Thorough && (i+j)%3 == 0) {
					yield(C10Case{Kind: stackKinds[cfgN%5], FIFO: fifo, Cap: cp, Init: init, Progs: [][]C10Op{p1, p2}, AllSched: true, YieldRel: true})
					yield(C10Case{Kind: stackKinds[cfgN%5], FIFO: fifo, Cap: cp, Init: init, Progs: [][]C10Op{p1, p2}, AllSched: true, YieldHeld: true})
				}
				if p2[0].Op == "remove" && init >= 1 && (len(p1)+len(p2) == 2 || tier.Thorough) {
					// the same with the index options on and the Remove given a relative index (last element / oversize)
					for _, rel := range []int{-1, init + 3} {
						q2 := append([]C10Op{{Op: "remove", A: rel}}, p2[1:]...)
						yield(C10Case{Kind: stackKinds[cfgN%5], FIFO: fifo, Cap: cp, Init: init, Progs: [][]C10Op{p1, q2}, AllSched: true, NegIdx: true, FwdIdx: true, YieldRel: cfgN%2 == 0})
					}
				}
			}
		}
	}
	if tier.Thorough {
		// 3 goroutines x 1 op
		al := alphabet(2)
		n := 0
		for _, a := range al {
			for _, b := range al {
				for _, d := range al {
					n++
					yield(C10Case{Kind: stackKinds[n%5], FIFO: n%2 == 0, Cap: (n % 3) * 2, Init: 2, Progs: [][]C10Op{{a}, {b}, {d}}, AllSched: true})
				}
			}
		}
	}
}

func init() {
	Register(Def[C10Case]{
		ID: "C10",
		Rule: "(A) deterministic, harness-owned schedules: 2-3 goroutines x 1-3 mutators (Push, Pop, Insert, Remove, Replace, Swap, Reverse, Reset) on a shared mutex-enabled stack of length 0..3, LIFO/FIFO, with/without capacity, with/without a (rejecting) push policy, with/without the negative/forward index options (Remove then given relative indices); a cooperative scheduler (verifPoint hook) parks each goroutine at every lock.want and at every operation boundary (and, in half of the generated cases and part of the enumerated ones, also right after every unlock, so that code running after the critical section is interleaved too; in a third of the generated and part of the enumerated ones also right after every lock acquisition, so that the others run while the lock is held: the protected state must be the same when the holder continues) and the schedule picks who continues. " +
			"Enumeration: ALL schedules of 2 goroutines x <=2 ops over a 7-10 op alphabet on lengths 0..2 (quick: all single-op pairs and a deterministic seventh of the two-op pairs; thorough: all pairs plus 3x1). rapid: random programs and schedules. " +
			"Oracle per execution: no panic; no self-deadlock, no parked-everybody deadlock, no lock leaked past an operation (from lock.held/lock.released ownership, deterministically); slot vector and configuration record (lock bookkeeping included) at lock.held equal those at the previous lock.released (shared state changes only under the lock); " +
			"IsInit/kind/capacity/FIFO intact, Len<=capacity; every returned or remaining element was pushed or initial, at most once; brute-force linearizability: some order consistent with each goroutine's program reproduces every return value and the final content on the list model. " +
			"(B) free-running: the same generated programs on real parallel goroutines behind a start barrier (10% of the cases; all cases in the -race stage), same history oracle, race reports keyed by the pair of top go-stackage frames. " +
			"non-trivial = programs with length-sensitive and length-changing operations in different goroutines and a schedule that runs another goroutine between some goroutine's lock.want and lock.held; distinct = (programs, schedule)",
		Gen:      genC10,
		Run:      runC10,
		Enum:     enumC10,
		EnumNote: "all schedules (at lock-acquisition + operation-boundary granularity) of the enumerated 2-goroutine configurations; sub_evaluations counts executed schedules",
		Floors:   map[string]float64{"switched-between-want-and-held": 0.2, "grown-and-drained-past": 0.03},
		Assumptions: []string{"interleavings are explored at lock-acquisition granularity (as the property's quantifier asks); finer interleavings inside unlocked regions are reached only by the free-running part",
			"free-running histories carry no real-time order, so only program order constrains the linearization", "race-detector results are sampled executions, never a proof of absence"},
	})
}
