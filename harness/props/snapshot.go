package props

// snapshot.go: the "full snapshot" oracle used by C08/C09/C11/C15/C17/C18.
// It combines the raw record exposed by the VerifDump hook (option bits,
// symbol, encapsulation list, closure identities, logger identity, log-level
// bits, aux identity and content, error, slots — recursively) with the public
// getters. Two snapshots of the same object are equal iff nothing observable
// or configured changed.

import (
	"encoding/json"
	"fmt"
	"sort"
	"strings"

	stackage "github.com/JesseCoretta/go-stackage"
)

// Snapshot renders x (Stack, Condition, alias, pointer) canonically, with
// absolute identities (valid for before/after comparison of one object).
func Snapshot(x any) string {
	d := stackage.VerifDump(x)
	b, _ := json.Marshal(d)
	return string(b) + "\n" + publicView(x)
}

// SnapshotNoErr is Snapshot with the stored error blanked (SetErr is allowed to
// change only that).
func SnapshotNoErr(x any) string {
	d := stackage.VerifDump(x)
	if cfg := cfgOf(d); cfg != nil {
		cfg["err"] = nil
	}
	b, _ := json.Marshal(d)
	return string(b) + "\n" + publicViewOpt(x, true)
}

// cfgOf returns the top-level configuration record of a dump.
func cfgOf(d map[string]any) map[string]any {
	if d == nil {
		return nil
	}
	switch d["kind"] {
	case "condition":
		if c, ok := d["cfg"].(map[string]any); ok {
			return c
		}
	case "stack":
		if slots, ok := d["slots"].([]any); ok && len(slots) > 0 {
			if s0, ok := slots[0].(map[string]any); ok {
				if c, ok := s0["cfg"].(map[string]any); ok {
					return c
				}
			}
		}
	}
	return nil
}

// RelSnapshot renders x with identities replaced by first-occurrence indices
// and closure *object* addresses dropped, so that two independently built
// objects from one description compare equal.
func RelSnapshot(x any) string {
	d := stackage.VerifDump(x)
	ids := map[string]int{}
	var walk func(v any) any
	walk = func(v any) any {
		switch tv := v.(type) {
		case map[string]any:
			keys := make([]string, 0, len(tv))
			for k := range tv {
				keys = append(keys, k)
			}
			sort.Strings(keys)
			out := map[string]any{}
			for _, k := range keys {
				val := tv[k]
				switch k {
				case "ptr", "mtxptr":
					key := fmt.Sprint(val)
					if _, ok := ids[key]; !ok {
						ids[key] = len(ids) + 1
					}
					out[k] = fmt.Sprintf("p%d", ids[key])
				case "logger":
					out[k] = val // package-level loggers are shared
				case "evl", "ppf", "vpf", "rpf", "eqf", "lss", "umf", "maf", "mfn":
					if s, ok := val.([]uintptr); ok && len(s) > 0 {
						out[k] = s[0]
					} else {
						out[k] = val
					}
				default:
					out[k] = walk(val)
				}
			}
			return out
		case []any:
			out := make([]any, len(tv))
			for i := range tv {
				out[i] = walk(tv[i])
			}
			return out
		}
		return v
	}
	b, _ := json.Marshal(walk(d))
	return string(b)
}

type pubStack interface {
	Len() int
	Kind() string
	Cap() int
	Avail() int
	IsFIFO() bool
	IsInit() bool
	IsZero() bool
	IsEmpty() bool
	IsFull() bool
	IsParen() bool
	IsPadded() bool
	IsReadOnly() bool
	IsEncap() bool
	IsNesting() bool
	CanNest() bool
	CanMutex() bool
	ID() string
	Category() string
	Err() error
	Index(int) (any, bool)
}

func publicView(x any) string { return publicViewOpt(x, false) }

func publicViewOpt(x any, noErr bool) string {
	var b strings.Builder
	p := guard(func() {
		if s, ok := stackage.ConvertStack(x); ok {
			fmt.Fprintf(&b, "Stack Len=%d Kind=%s Cap=%d Avail=%d FIFO=%v Init=%v Zero=%v Empty=%v Full=%v Paren=%v Padded=%v RO=%v Encap=%v Nesting=%v CanNest=%v CanMutex=%v ID=%q Cat=%q",
				s.Len(), s.Kind(), s.Cap(), s.Avail(), s.IsFIFO(), s.IsInit(), s.IsZero(), s.IsEmpty(), s.IsFull(), s.IsParen(), s.IsPadded(),
				s.IsReadOnly(), s.IsEncap(), s.IsNesting(), s.CanNest(), s.CanMutex(), s.ID(), s.Category())
			if !noErr {
				fmt.Fprintf(&b, " Err=%v", s.Err())
			}
			if s.IsInit() {
				fmt.Fprintf(&b, " Delim=%q LogLevels=%s Logger=%p Aux=%d", s.Delimiter(), s.LogLevels(), s.Logger(), s.Auxiliary().Len())
			}
			for i := 0; i < s.Len(); i++ {
				v, ok := s.Index(i)
				fmt.Fprintf(&b, " [%d]=%s/%v", i, identOf(v), ok)
			}
		} else if c, ok := stackage.ConvertCondition(x); ok {
			fmt.Fprintf(&b, "Cond KW=%q Op=%v Expr=%s Len=%d Init=%v Zero=%v Paren=%v Padded=%v RO=%v Encap=%v Nesting=%v CanNest=%v FIFO=%v ID=%q Cat=%q LogLevels=%s Logger=%p Aux=%d",
				c.Keyword(), c.Operator(), identOf(c.Expression()), c.Len(), c.IsInit(), c.IsZero(), c.IsParen(), c.IsPadded(), c.IsReadOnly(),
				c.IsEncap(), c.IsNesting(), c.CanNest(), c.IsFIFO(), c.ID(), c.Category(), c.LogLevels(), c.Logger(), c.Auxiliary().Len())
			if !noErr {
				fmt.Fprintf(&b, " Err=%v", c.Err())
			}
		} else {
			fmt.Fprintf(&b, "other %T", x)
		}
	})
	if p != "" {
		fmt.Fprintf(&b, " PANIC(%s)", p)
	}
	return b.String()
}

// identOf renders a value by identity (stacks/conditions/pointers) or content.
func identOf(v any) string {
	if v == nil {
		return "nil"
	}
	d := stackage.VerifDump(v)
	if d == nil {
		return fmt.Sprintf("%T", v)
	}
	switch d["kind"] {
	case "stack", "condition":
		return fmt.Sprintf("%s@%v", d["type"], d["ptr"])
	}
	if p, ok := d["ptr"]; ok {
		return fmt.Sprintf("%s@%v", d["type"], p)
	}
	return fmt.Sprintf("%s=%v", d["type"], d["val"])
}

// diffSnap gives a short description of where two snapshots differ.
func diffSnap(a, b string) string {
	if a == b {
		return ""
	}
	i := 0
	for i < len(a) && i < len(b) && a[i] == b[i] {
		i++
	}
	lo := i - 60
	if lo < 0 {
		lo = 0
	}
	ha, hb := i+80, i+80
	if ha > len(a) {
		ha = len(a)
	}
	if hb > len(b) {
		hb = len(b)
	}
	return fmt.Sprintf("first difference at byte %d:\n  before: ...%s...\n  after:  ...%s...", i, a[lo:ha], b[lo:hb])
}
