package props

// C13 — no-nesting keeps Stacks out; CanNest and IsNesting tell the truth.

import (
	"fmt"
	"reflect"

	stackage "github.com/JesseCoretta/go-stackage"
	"pgregory.net/rapid"
)

type C13Op struct {
	Op   string   `json:"op"`             // push nonest pop remove setexpr
	Vals []string `json:"vals,omitempty"` // value classes
	Mode int      `json:"mode,omitempty"` // nonest: 0 set, 1 clear, 2 toggle
	A    int      `json:"a,omitempty"`
}

type C13Case struct {
	Target string  `json:"target"` // stack | cond
	Kind   string  `json:"kind"`
	Cap    int     `json:"cap"`
	Amb    int     `json:"amb,omitempty"`
	Ops    []C13Op `json:"ops"`
}

var c13ValClasses = []string{"stack", "alias", "aliasS", "ptralias", "ptraliasNS", "ptrstack", "emptystack", "cond", "condstack", "condalias", "prim", "prim", "nil", "slice", "weirdptr", "nnstack", "fullstack", "ptrzero"}

func c13StackLike(class string) bool {
	switch class {
	case "stack", "alias", "aliasS", "ptralias", "ptraliasNS", "ptrstack", "emptystack", "nnstack", "fullstack":
		return true
	}
	return false
}

func c13Value(class string, tag int) any {
	inner := stackage.Or().Push("in" + itoa(tag))
	switch class {
	case "stack":
		return inner
	case "emptystack":
		return stackage.List()
	case "alias":
		return MyStack(inner)
	case "aliasS":
		return MyStackS(inner)
	case "ptralias":
		a := MyStackS(inner)
		return &a
	case "ptraliasNS":
		a := MyStack(inner)
		return &a
	case "ptrstack":
		return &inner
	case "cond":
		return stackage.Cond("k"+itoa(tag), stackage.Eq, "v")
	case "condstack":
		return stackage.Cond("k"+itoa(tag), stackage.Ne, inner)
	case "condalias":
		return MyCond(stackage.Cond("k"+itoa(tag), stackage.Ge, tag))
	case "nil":
		return nil
	case "slice":
		return []string{"s" + itoa(tag)}
	case "nnstack": // a Stack whose OWN no-nesting option is set: that is its business, not its holder's
		return stackage.And().Push("in" + itoa(tag)).SetNoNesting(true)
	case "fullstack":
		return stackage.Or(1).Push("in" + itoa(tag)).SetReadOnly(true)
	case "ptrzero": // a pointer to a zero Stack alias: not a Stack now; its owner may assign one later (op "pointee")
		return new(MyStack)
	case "weirdptr":
		return weirdPointer(tag) // typed nil pointers of depth 1..3 and live pointers to nil pointers: not Stacks
	}
	return tagValue(tag)
}

// same reports whether two stored values are the same instance/value.
func sameValue(a, b any) bool {
	if a == nil || b == nil {
		return a == nil && b == nil
	}
	if _, ok := a.([]string); ok {
		return identOf(a) == identOf(b)
	}
	if ta, tb := reflect.TypeOf(a), reflect.TypeOf(b); ta != tb {
		return false
	} else if !ta.Comparable() {
		// slices, maps: same backing store / same map
		switch ta.Kind() {
		case reflect.Slice:
			va, vb := reflect.ValueOf(a), reflect.ValueOf(b)
			return va.Len() == vb.Len() && va.Pointer() == vb.Pointer()
		case reflect.Map:
			return reflect.ValueOf(a).Pointer() == reflect.ValueOf(b).Pointer()
		}
		return reflect.DeepEqual(a, b)
	}
	return a == b
}

// c13Pointee changes what a held pointer points at, through the pointer itself (the way the owner of the variable
// would): fill = an initialised Stack is assigned, otherwise the zero value. Reports whether v was such a pointer.
func c13Pointee(v any, fill bool, tag int) bool {
	fresh := stackage.And().Push("late" + itoa(tag))
	switch p := v.(type) {
	case *MyStack:
		if p == nil {
			return false
		}
		if fill {
			*p = MyStack(fresh)
		} else {
			*p = MyStack{}
		}
	case *MyStackS:
		if p == nil {
			return false
		}
		if fill {
			*p = MyStackS(fresh)
		} else {
			*p = MyStackS{}
		}
	case *stackage.Stack:
		if p == nil {
			return false
		}
		if fill {
			*p = fresh
		} else {
			*p = stackage.Stack{}
		}
	default:
		return false
	}
	return true
}

func runC13(c C13Case) (st Stats, err error) {
	tag := 0
	flag := false
	applyMode := func(mode int) {
		switch mode {
		case 0:
			flag = true
		case 1:
			flag = false
		default:
			flag = !flag
		}
	}
	modeArgs := func(mode int) []bool {
		switch mode {
		case 0:
			return []bool{true}
		case 1:
			return []bool{false}
		}
		return nil
	}

	if c.Target == "cond" {
		var cd stackage.Condition
		var expr any
		exprClass := ""
		if p := guard(func() { cd.Init(); cd.SetKeyword("kw"); cd.SetOperator(stackage.Eq) }); p != "" {
			return st, violf("setup/panic", "%s", p)
		}
		refusedAfterAccepted := false
		for i, op := range c.Ops {
			st.Sub++
			p := guard(func() {
				switch op.Op {
				case "nonest":
					applyMode(op.Mode)
					cd.SetNoNesting(modeArgs(op.Mode)...)
				case "noise":
					switch op.A % 3 {
					case 0:
						cd.SetParen()
					case 1:
						cd.SetNoPadding()
					case 2:
						cd.SetEncap(`"`)
					}
				case "pointee":
					_, was := unwrapStack(expr)
					if c13Pointee(expr, op.Mode == 0, i) {
						if _, is := unwrapStack(expr); was != is {
							st.Class("held-pointee-changed-nature")
						}
					}
				case "setexpr", "push":
					cl := "prim"
					if len(op.Vals) > 0 {
						cl = op.Vals[0]
					}
					if cl == "nil" {
						cl = "prim"
					}
					tag++
					v := c13Value(cl, tag)
					if c13StackLike(cl) && flag {
						if expr != nil {
							refusedAfterAccepted = true
						}
						st.Class("cond-refused-" + cl)
					} else {
						expr, exprClass = v, cl
					}
					cd.SetExpression(v)
				}
			})
			if p != "" {
				return st, violf("Condition."+op.Op+"/panic", "step %d panicked: %s", i, p)
			}
			got := cd.Expression()
			if !sameValue(got, expr) {
				return st, violf("Condition.SetExpression/nonest="+fmt.Sprint(flag), "step %d (%+v): Expression()=%s, model %s (no-nesting=%v)", i, op, identOf(got), identOf(expr), flag)
			}
			if cd.CanNest() != !flag {
				return st, violf("Condition.CanNest", "step %d: CanNest()=%v with no-nesting=%v", i, cd.CanNest(), flag)
			}
			if _, nesting := unwrapStack(expr); cd.IsNesting() != nesting {
				return st, violf("Condition.IsNesting/"+exprClass, "step %d (%+v): IsNesting()=%v with expression class %q, which is a Stack now: %v", i, op, cd.IsNesting(), exprClass, nesting)
			}
		}
		st.Class("cond-side")
		st.NonTrivial = refusedAfterAccepted
		return st, nil
	}

	var s stackage.Stack
	m := &ListModel{Cap: c.Cap}
	var classes []string // class of each stored element
	if p := guard(func() { s = newStackOfKind(c.Kind, c.Cap); ApplyAmbient(s, c.Amb&^AmbPushOK) }); p != "" {
		return st, violf("setup/panic", "%s", p)
	}
	pushedStackWhileClear := false
	for i, op := range c.Ops {
		st.Sub++
		mixedWhileSet := false
		p := guard(func() {
			switch op.Op {
			case "noise":
				switch op.A % 6 {
				case 0:
					s.SetParen()
				case 1:
					s.SetNoPadding()
				case 2:
					s.SetFold()
				case 3:
					s.SetNegativeIndices()
				case 4:
					s.SetLeadOnce()
				case 5:
					s.SetForwardIndices()
				}
			case "pointee":
				if m.Len() == 0 {
					return
				}
				pos := posMod(op.A, m.Len())
				_, was := unwrapStack(m.Elems[pos])
				if c13Pointee(m.Elems[pos], op.Mode == 0, i) {
					if _, is := unwrapStack(m.Elems[pos]); was != is {
						st.Class("held-pointee-changed-nature")
					}
				}
			case "nonest":
				applyMode(op.Mode)
				s.SetNoNesting(modeArgs(op.Mode)...)
				st.Class(fmt.Sprintf("toggle-form-%d", op.Mode))
			case "push":
				vals := make([]any, len(op.Vals))
				nStack, nOther := 0, 0
				for j, cl := range op.Vals {
					tag++
					vals[j] = c13Value(cl, tag)
					sl := c13StackLike(cl)
					if sl {
						nStack++
					} else {
						nOther++
					}
					if flag && sl {
						st.Class("skipped-" + cl)
						continue
					}
					if !m.Full() {
						m.Elems = append(m.Elems, vals[j])
						classes = append(classes, cl)
						if sl && !flag {
							pushedStackWhileClear = true
						}
					}
				}
				if flag && nStack > 0 && nOther > 0 {
					mixedWhileSet = true
				}
				s.Push(vals...)
			case "pop":
				if m.Len() > 0 {
					m.Pop()
					classes = classes[:len(classes)-1]
				}
				s.Pop()
			case "remove":
				if m.Len() == 0 {
					return
				}
				pos := posMod(op.A, m.Len())
				if m.Elems[pos] == nil {
					return // nil slots are not addressable by Remove (C01 leniency); skip
				}
				m.Remove(pos)
				classes = append(classes[:pos:pos], classes[pos+1:]...)
				s.Remove(pos)
			}
		})
		if p != "" {
			return st, violf("Stack."+op.Op+"/panic", "step %d (%+v) panicked: %s", i, op, p)
		}
		if s.Len() != m.Len() {
			return st, violf(fmt.Sprintf("Stack.Push/nonest=%v/len", flag), "step %d (%+v): Len()=%d, model %d (no-nesting=%v, model classes %v)", i, op, s.Len(), m.Len(), flag, classes)
		}
		for j := range m.Elems {
			got, _ := s.Index(j)
			if !sameValue(got, m.Elems[j]) {
				return st, violf(fmt.Sprintf("Stack.Push/nonest=%v/content", flag), "step %d (%+v): Index(%d)=%s, model %s (%s)", i, op, j, identOf(got), identOf(m.Elems[j]), classes[j])
			}
		}
		if s.CanNest() != !flag {
			return st, violf("Stack.CanNest", "step %d (%+v): CanNest()=%v with no-nesting=%v", i, op, s.CanNest(), flag)
		}
		want := false
		for _, e := range m.Elems { // what the elements are NOW (a held pointer's target may have been assigned or cleared since)
			if _, ok := unwrapStack(e); ok {
				want = true
			}
		}
		if s.IsNesting() != want {
			return st, violf("Stack.IsNesting", "step %d (%+v): IsNesting()=%v, element classes %v", i, op, s.IsNesting(), classes)
		}
		if mixedWhileSet && pushedStackWhileClear {
			st.NonTrivial = true
			st.Class("mixed-batch-while-set-after-stack-while-clear")
		}
	}
	return st, nil
}

func genC13(t *rapid.T, tier Tier) C13Case {
	c := C13Case{Kind: rapid.SampledFrom(stackKinds).Draw(t, "kind"), Target: "stack"}
	if rapid.IntRange(0, 4).Draw(t, "cond?") == 0 {
		c.Target = "cond"
	}
	if rapid.IntRange(0, 3).Draw(t, "hascap") == 0 {
		c.Cap = rapid.IntRange(1, 8).Draw(t, "cap")
	}
	c.Amb = drawAmbient(t, false)
	n := rapid.IntRange(1, 20).Draw(t, "nops")
	ops := []string{"push", "push", "push", "nonest", "nonest", "pop", "remove", "noise", "pointee"}
	for i := 0; i < n; i++ {
		o := C13Op{Op: rapid.SampledFrom(ops).Draw(t, "op")}
		switch o.Op {
		case "push":
			k := rapid.IntRange(1, 5).Draw(t, "batch")
			if rapid.IntRange(0, 9).Draw(t, "bulk?") == 0 {
				k = rapid.IntRange(9, 40).Draw(t, "bulk") // IsNesting scans, the filter and the allocator see long contents too
				if rapid.IntRange(0, 2).Draw(t, "bigbulk?") == 0 {
					k = rapid.IntRange(60, 300).Draw(t, "bigbulk")
				}
			}
			for j := 0; j < k; j++ {
				o.Vals = append(o.Vals, rapid.SampledFrom(c13ValClasses).Draw(t, "class"))
			}
		case "nonest":
			o.Mode = rapid.IntRange(0, 2).Draw(t, "mode")
		case "pointee":
			o.A = rapid.IntRange(0, 20).Draw(t, "a")
			o.Mode = rapid.IntRange(0, 1).Draw(t, "fill")
		case "remove", "noise":
			o.A = rapid.IntRange(0, 20).Draw(t, "a")
		}
		c.Ops = append(c.Ops, o)
	}
	return c
}

func init() {
	Register(Def[C13Case]{
		ID: "C13",
		Rule: "rapid-generated programs (1..20 steps) of push batches mixing native Stacks, empty stacks, alias values (with/without String), pointers to aliases/Stacks, Conditions (plain, holding a stack, alias), primitives, slices and nil, " +
			"interleaved with SetNoNesting(true/false/toggle), Pop and Remove, on Stacks of every kind (with/without capacity) and on Conditions (SetExpression). Model: ordered list + flag; after every step Len/Index* (identity), CanNest()==!flag, " +
			"IsNesting()==exists stack-like element. non-trivial = a batch with >=1 stack-like and >=1 other value pushed while the flag is set, after a stack was pushed while it was clear (Condition side: a refused stack after an accepted expression); distinct = distinct case JSON",
		Gen:         genC13,
		Run:         runC13,
		Floors:      map[string]float64{"mixed-batch-while-set-after-stack-while-clear": 0.05, "cond-side": 0.1, "toggle-form-2": 0.1, "held-pointee-changed-nature": 0.03},
		Assumptions: []string{"no push policy is installed (the docs hand control to the policy when one is)"},
	})
}
