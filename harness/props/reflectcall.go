package props

// reflectcall.go: reflection-driven method enumeration and argument synthesis
// (DESIGN.md 2.5). Methods are taken from the reflected method sets of Stack,
// *Stack, Condition, *Condition and Auxiliary, so a method added to go-stackage
// later is exercised without touching the harness. Arguments are synthesised by
// parameter type from a deterministic variant number.

import (
	"errors"
	"fmt"
	"io"
	"log"
	"math"
	"reflect"
	"sort"
	"time"
	"unsafe"

	stackage "github.com/JesseCoretta/go-stackage"
)

type methodRef struct {
	Owner string // Stack | *Stack | Condition | *Condition | Auxiliary
	Name  string
	Type  reflect.Type // method type with receiver as first input
	Index int
}

func (m methodRef) String() string { return m.Owner + "." + m.Name }

var (
	stackMethods = collectMethods(stackage.Stack{}, &stackage.Stack{}, "Stack") // value + pointer method set (pointer-only ones flagged by Owner)
	condMethods  = collectMethods(stackage.Condition{}, &stackage.Condition{}, "Condition")
	auxMethods   = collectMethods(stackage.Auxiliary{}, nil, "Auxiliary")
)

func collectMethods(val any, ptr any, owner string) []methodRef {
	seen := map[string]bool{}
	var out []methodRef
	vt := reflect.TypeOf(val)
	for i := 0; i < vt.NumMethod(); i++ {
		m := vt.Method(i)
		seen[m.Name] = true
		out = append(out, methodRef{Owner: owner, Name: m.Name, Type: m.Type, Index: i})
	}
	if ptr != nil {
		pt := reflect.TypeOf(ptr)
		for i := 0; i < pt.NumMethod(); i++ {
			m := pt.Method(i)
			if seen[m.Name] {
				continue
			}
			out = append(out, methodRef{Owner: "*" + owner, Name: m.Name, Type: m.Type, Index: i})
		}
	}
	sort.Slice(out, func(i, j int) bool { return out[i].Name < out[j].Name })
	return out
}

// ---- awkward value catalogue (DESIGN.md 2.2) --------------------------------------

type privOnly struct{ a, b int }

type awkward struct {
	Name string
	Make func() any
}

// flipLen: successive Make() calls of the "alternating" entries give slices of the SAME capacity and
// DIFFERENT length (receiver and twin, or two stored instances, then differ in length only).
var flipLen int

var awkwardCatalogue = []awkward{
	{"untyped-nil", func() any { return nil }},
	{"nil-*int", func() any { return (*int)(nil) }},
	{"nil-**int", func() any { return (**int)(nil) }},
	{"nil-***int", func() any { return (***int)(nil) }},
	{"nil-*Stack", func() any { return (*stackage.Stack)(nil) }},
	{"nil-**Stack", func() any { return (**stackage.Stack)(nil) }},
	{"nil-*Condition", func() any { return (*stackage.Condition)(nil) }},
	{"nil-*alias", func() any { return (*MyStack)(nil) }},
	{"nil-*condalias", func() any { return (*MyCond)(nil) }},
	{"ptr-to-nil-ptr", func() any { var p *int; return &p }},
	{"zero-Stack", func() any { return stackage.Stack{} }},
	{"zero-Condition", func() any { return stackage.Condition{} }},
	{"zero-alias", func() any { return MyStack{} }},
	{"zero-condalias", func() any { return MyCond{} }},
	{"ptr-zero-Stack", func() any { return &stackage.Stack{} }},
	{"init-only-Condition", func() any { var c stackage.Condition; c.Init(); return c }},
	{"func", func() any { return func() {} }},
	{"func-with-args", func() any { return func(int) string { return "" } }},
	{"nil-func", func() any { return (func())(nil) }},
	{"chan", func() any { return make(chan int) }},
	{"nil-chan", func() any { return (chan int)(nil) }},
	{"map", func() any { return map[string]int{"a": 1} }},
	{"nil-map", func() any { return map[string]int(nil) }},
	{"map-any-key", func() any { return map[any]any{1: "x", "k": nil} }},
	{"NaN", func() any { return math.NaN() }},
	{"map-NaN-key", func() any { return map[float64]string{math.NaN(): "x", 1: "y"} }}, // a key MapKeys lists and MapIndex never finds
	{"map-any-NaN-key", func() any { return map[any]any{math.NaN(): 1} }},
	{"map-NaN-value", func() any { return map[string]float64{"a": math.NaN()} }},
	{"slice-NaN", func() any { return []float64{math.NaN(), 1} }},
	{"array-NaN", func() any { return [2]float64{math.NaN(), 1} }},
	{"Inf", func() any { return math.Inf(-1) }},
	{"private-field-struct", func() any { return privStruct{A: 1, priv: "p", B: "b"} }},
	{"private-only-struct", func() any { return privOnly{1, 2} }},
	{"ptr-private-struct", func() any { return &privStruct{A: 1} }},
	{"pointer-to-pointer", func() any { x := 7; p := &x; return &p }},
	{"unsafe-pointer", func() any { x := 1; return unsafe.Pointer(&x) }},
	{"uintptr", func() any { return uintptr(0xdead) }},
	{"empty-struct", func() any { return struct{}{} }},
	{"slice-of-any", func() any { return []any{nil, 1, []any{}} }},
	{"empty-any-slice", func() any { return []any{} }},
	{"nil-slice", func() any { return []string(nil) }},
	{"empty-string-slice", func() any { return []string{} }},
	{"array", func() any { return [2]int{1, 2} }},
	{"error-value", func() any { return errors.New("e") }},
	{"nil-error", func() any { var e error; return e }},
	{"interface-holding-nil-ptr", func() any { var s fmt.Stringer = (*strLeaf)(nil); return s }},
	{"reflect-value", func() any { return reflect.ValueOf(1) }},
	{"complex", func() any { return complex(1, -1) }},
	{"rune", func() any { return 'x' }},
	{"empty-string", func() any { return "" }},
	{"stack", func() any { return stackage.And().Push("in") }},
	{"alias", func() any { return MyStack(stackage.Or().Push(1)) }},
	{"condition", func() any { return stackage.Cond("k", stackage.Eq, "v") }},
	{"capacity-stack", func() any { return stackage.And(4).Push("c1") }},
	{"full-capacity-stack", func() any { return stackage.Or(1).Push("full") }},
	{"capacity-alias", func() any { return MyStack(stackage.List(3).Push("c1")) }},
	{"readonly-stack", func() any { return stackage.And().Push("ro").SetReadOnly(true) }},
	{"mutex-stack", func() any { return stackage.Or().Push("m").SetMutex() }},
	{"fifo-nonest-stack", func() any { return stackage.List().SetFIFO(true).Push("f").SetNoNesting(true) }},
	{"empty-stack", func() any { return stackage.Not() }},
	{"empty-keyword-condition", func() any { return stackage.Cond("", stackage.Eq, "v") }},
	{"init-condition-with-operator-only", func() any { var c stackage.Condition; c.Init(); c.SetOperator(stackage.Ne); return c }},
	{"condition-with-stack-expression", func() any { return stackage.Cond("k", stackage.Ge, stackage.Or().Push("a", "b")) }},
	{"condition-alias-invalid", func() any { var c stackage.Condition; c.Init(); return MyCond(c) }},
	{"operatorless-condition", func() any { var c stackage.Condition; c.Init(); c.SetKeyword("k"); c.SetExpression("v"); return c }},
	{"slice-of-nil-ptr", func() any { return []*int{nil} }},
	{"slice-with-nil-ptr", func() any { x := 1; return []*int{&x, nil} }},
	{"map-with-nil-ptr", func() any { return map[string]*int{"a": nil} }},
	{"struct-with-nil-ptr-field", func() any { return ptrStruct{} }},
	{"array-of-nil-ptr", func() any { return [2]*string{} }},
	{"slice-of-any-nil", func() any { return []any{nil} }},
	{"ptr-to-slice-of-nil-ptr", func() any { s := []*int{nil}; return &s }},
	// methods promoted through a nil embedded field: the method exists, calling it dereferences nil
	{"struct-embedding-nil-Stringer", func() any { return struct{ fmt.Stringer }{} }},
	{"struct-embedding-nil-*strLeaf", func() any { return struct{ *strLeaf }{} }},
	{"struct-embedding-nil-error", func() any { return struct{ error }{} }},
	{"struct-embedding-nil-Operator", func() any { return struct{ stackage.Operator }{} }},
	{"struct-embedding-zero-Stack", func() any { return struct{ stackage.Stack }{} }},
	// (a NON-zero value whose promoted method dereferences nil - e.g. a pointer to such a struct, or such a
	// struct in the Operator position - is user code that panics when called, not the library's business)
	// zero and non-zero values of types with a String method
	{"zero-struct-stringer", func() any { return strLeaf{} }},
	{"zero-int-stringer", func() any { return intStringer(0) }},
	{"int-stringer", func() any { return intStringer(5) }},
	{"zero-duration", func() any { return time.Duration(0) }},
	{"zero-time", func() any { return time.Time{} }},
	// operators of an uncomparable Go type, values at numeric and size boundaries
	{"slice-operator", func() any { return sliceOp{"~", "ctx"} }},
	{"nil-slice-operator", func() any { return sliceOp(nil) }},
	{"byte-array", func() any { return [4]byte{1, 2, 3, 4} }},
	{"byte-slice", func() any { return []byte("abc") }},
	{"ptr-byte-array", func() any { return &[3]byte{1, 2, 3} }},
	{"empty-array", func() any { return [0]int{} }},
	{"max-uint64", func() any { return uint64(math.MaxUint64) }},
	{"top-bit-uint", func() any { return uint(1) << 63 }},
	{"min-int64", func() any { return int64(math.MinInt64) }},
	{"one-member-any-slice", func() any { return []any{"only"} }},
	{"nested-one-member-any-slice", func() any { return []any{[]any{"only"}} }},
	{"slice-cap4-len-alternating", func() any { flipLen++; return make([]int, 2+flipLen%2, 4) }},
	{"byte-slice-cap8-len-alternating", func() any { flipLen++; return make([]byte, 1+flipLen%2, 8) }},
	{"plain-string", func() any { return "plain" }},
	{"plain-int", func() any { return 3 }},
	// values that are meaningful to setters taking `any` (loggers, log levels, delimiters, symbols, encapsulation)
	{"marshal-condition-row", func() any { return []any{"CONDITION", "k", stackage.Eq, "v"} }},
	{"marshal-stack-envelope", func() any { return []any{"AND", "x", 1} }},
	{"marshal-nested-envelope", func() any {
		return []any{"or", []any{"LIST", "a"}, []any{"condition", "kw", stackage.Ne, []any{"NOT", "z"}}}
	}},
	{"logger-name-stderr", func() any { return "stderr" }},
	{"logger-int-2", func() any { return 2 }},
	{"logger-ptr", func() any { return log.New(io.Discard, "x", 0) }},
	{"loglevel-const", func() any { return stackage.LogLevel5 }},
	{"loglevel-const3", func() any { return stackage.LogLevel3 }},
	{"loglevel-user2", func() any { return "USER2" }},
	{"loglevel-2", func() any { return stackage.LogLevel2 }},
	{"loglevel-name", func() any { return "debug" }},
	{"loglevel-all", func() any { return stackage.AllLogLevels }},
	{"loglevel-raw-int", func() any { return 2048 }},
	{"comma", func() any { return "," }},
	{"pipe-rune", func() any { return '|' }},
	{"encap-pair", func() any { return []string{"[", "]"} }},
	{"encap-single", func() any { return []string{"^"} }},
}

var meaningfulFrom = func() int {
	for i, a := range awkwardCatalogue {
		if a.Name == "plain-string" {
			return i
		}
	}
	return 0
}()

// ---- argument synthesis ------------------------------------------------------------

var (
	tOperator = reflect.TypeOf((*stackage.Operator)(nil)).Elem()
	tError    = reflect.TypeOf((*error)(nil)).Elem()
	tAny      = reflect.TypeOf((*any)(nil)).Elem()
	tAux      = reflect.TypeOf(stackage.Auxiliary{})
	tLogger   = reflect.TypeOf((*log.Logger)(nil))
)

type synthCtx struct {
	Len       int
	Variant   int
	ForceAny  string // name of the catalogue entry to use for every `any` parameter ("" = pick by hash)
	SmallInts bool   // capacities for constructors: absurd sizes are a resource question, not a property
	calls     *int   // incremented by synthesised closures when they are invoked
}

func intChoices(l int) []int {
	return []int{0, 1, l - 1, -1, l, 2, l + 1, -l, math.MinInt, math.MaxInt, -l - 1, -2, math.MinInt + 1, math.MaxInt - 1}
}

// mixChoice spreads (variant, parameter position) over n choices.
func mixChoice(k, i, n int) int {
	h := uint32(k)*2654435761 + uint32(i)*40503 + 12345
	h ^= h >> 15
	h *= 2246822519
	h ^= h >> 13
	return int(h % uint32(n))
}

// pickAwkward chooses a catalogue entry for k by rendezvous hashing over the entry NAMES (highest
// hash wins): the choice for a given k only changes when an entry that beats the current winner is
// added or the winner is removed, so saved replay cases keep their meaning when the catalogue grows.
func pickAwkward(k, from int) awkward {
	best, bi := uint32(0), from
	for i := from; i < len(awkwardCatalogue); i++ {
		h := uint32(k)*2654435761 + 97
		for _, c := range []byte(awkwardCatalogue[i].Name) {
			h = (h ^ uint32(c)) * 16777619
		}
		h ^= h >> 15
		h *= 2246822519
		h ^= h >> 13
		if h >= best {
			best, bi = h, i
		}
	}
	return awkwardCatalogue[bi]
}

// synthValue builds one argument of type t. k selects among the choices.
func synthValue(t reflect.Type, k int, ctx *synthCtx) (reflect.Value, string) {
	switch {
	case t == tAny:
		a := pickAwkward(k, 0)
		if ctx != nil && ctx.ForceAny != "" {
			for _, e := range awkwardCatalogue {
				if e.Name == ctx.ForceAny {
					a = e
				}
			}
		} else if (k>>8)%3 == 0 {
			// a third of the time: one of the values that mean something to a setter
			a = pickAwkward(k, meaningfulFrom)
		}
		v := a.Make()
		if v == nil {
			return reflect.Zero(t), a.Name
		}
		rv := reflect.New(t).Elem()
		rv.Set(reflect.ValueOf(v))
		return rv, a.Name
	case t == tOperator:
		ops := []stackage.Operator{nil, stackage.Eq, stackage.ComparisonOperator(0), stackage.ComparisonOperator(99), userOp{"~", "c"}, userOp{"", ""}, sliceOp{"~", "ctx"}, sliceOp{"~", "ctx"}, sliceOp(nil)}
		o := ops[posMod(k, len(ops))]
		rv := reflect.New(t).Elem()
		if o != nil {
			rv.Set(reflect.ValueOf(o))
		}
		return rv, fmt.Sprintf("op%d", posMod(k, len(ops)))
	case t == tError:
		rv := reflect.New(t).Elem()
		if k%2 == 0 {
			rv.Set(reflect.ValueOf(errors.New("synthetic error")))
			return rv, "error"
		}
		return rv, "nil-error"
	case t == tAux:
		switch posMod(k, 3) {
		case 0:
			return reflect.ValueOf(stackage.Auxiliary{"k": k}), "aux"
		case 1:
			return reflect.Zero(t), "nil-aux"
		}
		return reflect.ValueOf(stackage.Auxiliary{}), "empty-aux"
	case t == tLogger:
		if k%2 == 0 {
			return reflect.ValueOf(log.New(io.Discard, "", 0)), "logger"
		}
		return reflect.Zero(t), "nil-logger"
	}
	switch t.Kind() {
	case reflect.Int:
		cs := intChoices(ctx.Len)
		if ctx.SmallInts {
			cs = []int{math.MinInt, -1, 0, 1, 2, 7, 1000}
		}
		i := cs[posMod(k, len(cs))]
		return reflect.ValueOf(i).Convert(t), fmt.Sprintf("int(%d)", i)
	case reflect.String:
		cs := []string{"x", "", "AND", "stdout-not", "é"}
		s := cs[posMod(k, len(cs))]
		return reflect.ValueOf(s).Convert(t), fmt.Sprintf("%q", s)
	case reflect.Bool:
		return reflect.ValueOf(k%2 == 0).Convert(t), fmt.Sprint(k%2 == 0)
	case reflect.Func:
		// a pure recorder returning zero values (or a configurable error for error results)
		fn := reflect.MakeFunc(t, func(args []reflect.Value) []reflect.Value {
			if ctx.calls != nil {
				*ctx.calls++
			}
			outs := make([]reflect.Value, t.NumOut())
			for i := range outs {
				outs[i] = reflect.Zero(t.Out(i))
			}
			return outs
		})
		if posMod(k, 4) == 3 {
			return reflect.Zero(t), "nil-func"
		}
		return fn, "recorder-func"
	case reflect.Interface:
		return reflect.Zero(t), "zero-interface"
	}
	return reflect.Zero(t), "zero"
}

// synthArgs builds the argument list for a method (receiver excluded) from a variant number.
func synthArgs(mt reflect.Type, skipRecv bool, ctx *synthCtx) ([]reflect.Value, string) {
	start := 0
	if skipRecv {
		start = 1
	}
	var args []reflect.Value
	var desc []string
	k := ctx.Variant
	n := mt.NumIn()
	for i := start; i < n; i++ {
		pt := mt.In(i)
		if mt.IsVariadic() && i == n-1 {
			et := pt.Elem()
			cnt := posMod(k, 3) // 0..2 elements
			if ctx.ForceAny != "" && cnt == 0 {
				cnt = 1
			}
			if (k>>3)%16 == 5 && et.Kind() != reflect.Bool {
				cnt = 33 + (k>>7)%300 // a long argument list (past any small fixed batch size)
			}
			if et.Kind() == reflect.Bool {
				// tri-state setters: none / true / false
				switch posMod(k, 3) {
				case 0:
					desc = append(desc, "no-arg")
				case 1:
					args = append(args, reflect.ValueOf(true))
					desc = append(desc, "true")
				case 2:
					args = append(args, reflect.ValueOf(false))
					desc = append(desc, "false")
				}
				continue
			}
			if cnt == 0 {
				desc = append(desc, "no-arg")
			}
			for j := 0; j < cnt; j++ {
				v, d := synthValue(et, mixChoice(k, i*8+j, 1<<20), ctx)
				args = append(args, v)
				desc = append(desc, d)
			}
			continue
		}
		v, d := synthValue(pt, mixChoice(k, i, 1<<20), ctx)
		args = append(args, v)
		desc = append(desc, d)
	}
	return args, fmt.Sprint(desc)
}

// callMethod invokes method name on recv (a Stack/Condition/Auxiliary value or a pointer to one) under recover.
func callMethod(recv any, m methodRef, args []reflect.Value) (outs []reflect.Value, panicked string) {
	defer func() {
		if r := recover(); r != nil {
			panicked = fmt.Sprint(r)
		}
	}()
	rv := reflect.ValueOf(recv)
	meth := rv.MethodByName(m.Name)
	if !meth.IsValid() {
		// pointer-receiver method on a value: take the address of a copy holder
		if rv.Kind() != reflect.Ptr {
			p := reflect.New(rv.Type())
			p.Elem().Set(rv)
			meth = p.MethodByName(m.Name)
		}
	}
	if !meth.IsValid() {
		return nil, "method " + m.Name + " not found"
	}
	outs = meth.Call(args)
	return outs, ""
}
