package props

// model.go: reference models written from the property statements and the
// package documentation (never from the implementation).

import (
	"fmt"
	"strings"

	stackage "github.com/JesseCoretta/go-stackage"
)

// ListModel is the ordered-list reference for C01/C03/C10/C13/C14/C15.
type ListModel struct {
	Elems []any
	Cap   int // 0 = none
	FIFO  bool
}

func (m *ListModel) Len() int { return len(m.Elems) }

func (m *ListModel) Full() bool { return m.Cap > 0 && len(m.Elems) >= m.Cap }

// Push appends each value in order while room remains; returns how many were stored.
func (m *ListModel) Push(vals ...any) int {
	n := 0
	for _, v := range vals {
		if m.Full() {
			continue
		}
		m.Elems = append(m.Elems, v)
		n++
	}
	return n
}

// Pop removes the newest end (LIFO) or the oldest end (FIFO).
func (m *ListModel) Pop() (v any, existed bool) {
	if len(m.Elems) == 0 {
		return nil, false
	}
	if m.FIFO {
		v = m.Elems[0]
		m.Elems = append([]any{}, m.Elems[1:]...)
	} else {
		v = m.Elems[len(m.Elems)-1]
		m.Elems = append([]any{}, m.Elems[:len(m.Elems)-1]...)
	}
	return v, true
}

// Insert places v at clamp(pos,0,Len); refuses nil and a full list.
func (m *ListModel) Insert(v any, pos int) bool {
	if v == nil || m.Full() {
		return false
	}
	if pos < 0 {
		pos = 0
	}
	if pos > len(m.Elems) {
		pos = len(m.Elems)
	}
	out := make([]any, 0, len(m.Elems)+1)
	out = append(out, m.Elems[:pos]...)
	out = append(out, v)
	out = append(out, m.Elems[pos:]...)
	m.Elems = out
	return true
}

// Remove deletes position i (must exist).
func (m *ListModel) Remove(i int) any {
	v := m.Elems[i]
	out := make([]any, 0, len(m.Elems)-1)
	out = append(out, m.Elems[:i]...)
	out = append(out, m.Elems[i+1:]...)
	m.Elems = out
	return v
}

func (m *ListModel) Replace(v any, i int) bool {
	if v == nil || i < 0 || i >= len(m.Elems) {
		return false
	}
	m.Elems[i] = v
	return true
}

func (m *ListModel) Swap(i, j int) {
	m.Elems[i], m.Elems[j] = m.Elems[j], m.Elems[i]
}

func (m *ListModel) Reverse() {
	for i, j := 0, len(m.Elems)-1; i < j; i, j = i+1, j-1 {
		m.Elems[i], m.Elems[j] = m.Elems[j], m.Elems[i]
	}
}

func (m *ListModel) Reset() { m.Elems = nil }

func (m *ListModel) Clone() *ListModel {
	return &ListModel{Elems: append([]any{}, m.Elems...), Cap: m.Cap, FIFO: m.FIFO}
}

func (m *ListModel) HasNil() bool {
	for _, e := range m.Elems {
		if e == nil {
			return true
		}
	}
	return false
}

// tagValue gives distinct, recognisable element values: even tags are
// strings, odd tags are ints; so a misplaced element is identifiable.
func tagValue(tag int) any {
	if tag < 0 {
		return nil
	}
	if tag%2 == 0 {
		return "v" + itoa(tag)
	}
	return tag
}

// tagValueP is tagValue with pointer-typed values mixed in (every seventh a live *int, every
// eleventh a live pointer to a nil pointer): comparable by identity, but code that inspects
// element types by reflection meets a pointer.
func tagValueP(tag int) any {
	switch {
	case tag > 0 && tag%7 == 3:
		x := tag
		return &x
	case tag > 0 && tag%11 == 5:
		var p *int
		return &p
	case tag > 0 && tag%5 == 4:
		// look-alikes: distinct instances with equal content (identity must still be what moves)
		x := 7
		return &x
	case tag > 0 && tag%13 == 6:
		return &PubStruct{A: 1, B: "same"}
	case tag > 0 && tag%9 == 7:
		return nestedProbe(tag)
	case tag > 0 && tag%17 == 8:
		// handles of the package's own types held by pointer or as an alias: stored values like any other
		p := nestedProbe(tag)
		return &p
	case tag > 0 && tag%19 == 9:
		return MyStack(nestedProbe(tag))
	case tag > 0 && tag%23 == 10:
		a := MyStack(nestedProbe(tag))
		return &a
	case tag > 0 && tag%29 == 11:
		return stackage.Cond("k"+itoa(tag), stackage.Eq, tag)
	case tag > 0 && tag%31 == 12:
		c := stackage.Cond("k"+itoa(tag), stackage.Ne, "v")
		return &c
	}
	return tagValue(tag)
}

// nestedProbe: a populated Stack used as a plain stored value. Whatever is done to the stack that
// holds it (reordering, removal, transfer ...), the probe's own content must stay what it was:
// probeIntact tells (by the probe's ID) whether it still does.
func nestedProbe(tag int) stackage.Stack {
	id := "probe" + itoa(tag)
	return stackage.Or().SetID(id).Push(id+".1", id+".2", id+".3")
}

func probeIntact(v any) string {
	s, ok := v.(stackage.Stack)
	if !ok || !s.IsInit() || !strings.HasPrefix(s.ID(), "probe") {
		return ""
	}
	id := s.ID()
	if s.Len() != 3 {
		return fmt.Sprintf("the stored stack %s now holds %d values, it was stored with 3", id, s.Len())
	}
	for i := 0; i < 3; i++ {
		if x, _ := s.Index(i); x != id+"."+itoa(i+1) {
			return fmt.Sprintf("the stored stack %s now has %#v at position %d, it was stored with %q there", id, x, i, id+"."+itoa(i+1))
		}
	}
	return ""
}

func itoa(i int) string {
	if i == 0 {
		return "0"
	}
	neg := i < 0
	if neg {
		i = -i
	}
	var b [24]byte
	p := len(b)
	for i > 0 {
		p--
		b[p] = byte('0' + i%10)
		i /= 10
	}
	if neg {
		p--
		b[p] = '-'
	}
	return string(b[p:])
}
