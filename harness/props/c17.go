package props

// C17 — uninitialised and freed instances are inert, not dangerous.

import (
	"fmt"
	"reflect"
	"strings"

	stackage "github.com/JesseCoretta/go-stackage"
	"pgregory.net/rapid"
)

type C17Call struct {
	Method  string `json:"method"`
	Variant int    `json:"variant"`
	Arg     string `json:"arg,omitempty"` // when set: every `any`-typed argument is this catalogue entry (by name), not a hashed pick
}

type C17Case struct {
	Mode              string    `json:"mode"`  // inert | free | reset | pkgfunc
	State             string    `json:"state"` // zero-stack freed-stack zero-cond freed-cond init-cond nil-aux
	Calls             []C17Call `json:"calls,omitempty"`
	Root              *Node     `json:"root,omitempty"` // free / reset
	RO                bool      `json:"ro,omitempty"`
	Func              string    `json:"func,omitempty"`               // pkgfunc
	Prep              string    `json:"prep,omitempty"`               // reset: a step taken before the Reset (remove0 removelast insertfront pop remove+insert)
	RejectingValidity bool      `json:"rejecting_validity,omitempty"` // reset: the installed validity policy rejects the stack
	Variant           int       `json:"variant,omitempty"`
}

var c17States = []string{"zero-stack", "freed-stack", "zero-cond", "freed-cond", "init-cond", "reinit-cond", "nil-aux"}

func methodsFor(state string) []methodRef {
	switch {
	case strings.HasSuffix(state, "stack"):
		return stackMethods
	case strings.HasSuffix(state, "cond"):
		return condMethods
	}
	return auxMethods
}

func findMethod(ms []methodRef, name string) (methodRef, bool) {
	for _, m := range ms {
		if m.Name == name {
			return m, true
		}
	}
	return methodRef{}, false
}

func restoreDefaults() {
	stackage.SetDefaultConditionLogger(nil)
	stackage.SetDefaultStackLogger(nil)
	stackage.SetDefaultConditionLogLevel(stackage.NoLogLevels)
	stackage.SetDefaultStackLogLevel(stackage.NoLogLevels)
}

// zeroResultProblem describes the first result that is not the zero result the statement asks for.
func zeroResultProblem(m methodRef, outs []reflect.Value) string {
	for i, o := range outs {
		t := o.Type()
		switch t.Kind() {
		case reflect.Bool:
			if o.Bool() && !strings.HasPrefix(m.Name, "Is") {
				return fmt.Sprintf("result %d is true", i)
			}
		case reflect.Int, reflect.Int8, reflect.Int16, reflect.Int32, reflect.Int64:
			if o.Int() != 0 {
				return fmt.Sprintf("result %d is %d", i, o.Int())
			}
		case reflect.String:
			// lenient: empty or a documented placeholder
		case reflect.Interface:
			if t == tError {
				continue
			}
			if !o.IsNil() {
				return fmt.Sprintf("result %d (%s) is %#v, want nil", i, t, o.Interface())
			}
		case reflect.Ptr, reflect.Slice, reflect.Map, reflect.Func, reflect.Chan:
			if !o.IsNil() {
				return fmt.Sprintf("result %d (%s) is not nil: %#v", i, t, o.Interface())
			}
		case reflect.Struct:
			if z, ok := o.Interface().(interface{ IsZero() bool }); ok {
				if !z.IsZero() {
					return fmt.Sprintf("result %d (%s) is not the zero value", i, t)
				}
			}
		}
	}
	return ""
}

func runC17(c C17Case) (Stats, error) {
	switch c.Mode {
	case "free":
		return runC17Free(c)
	case "reset":
		return runC17Reset(c)
	case "pkgfunc":
		return runC17Func(c)
	}
	return runC17Inert(c)
}

// stripLogger removes the Logger=0x... field (an address) from a publicView string.
func stripLogger(s string) string {
	i := strings.Index(s, " Logger=")
	if i < 0 {
		return s
	}
	j := strings.Index(s[i+1:], " ")
	if j < 0 {
		return s[:i]
	}
	return s[:i] + s[i+1+j:]
}

func runC17Inert(c C17Case) (st Stats, err error) {
	// the receiver lives behind a pointer so that pointer-receiver methods can be called too
	var sp *stackage.Stack
	var cp *stackage.Condition
	var aux stackage.Auxiliary
	reinitProblem := ""
	if p := guard(func() {
		switch c.State {
		case "zero-stack":
			sp = &stackage.Stack{}
		case "freed-stack":
			s := stackage.And().Push("a", "b")
			sp = &s
			if e := sp.Free(); e != nil {
				panic("Free failed: " + e.Error())
			}
		case "zero-cond":
			cp = &stackage.Condition{}
		case "freed-cond":
			cc := stackage.Cond("k", stackage.Eq, "v")
			cp = &cc
			if e := cp.Free(); e != nil {
				panic("Free failed: " + e.Error())
			}
		case "init-cond":
			cp = &stackage.Condition{}
			cp.Init()
		case "reinit-cond":
			// Init() on a handle that was initialised and configured (but never assembled) before: the
			// result is an Init()-only Condition like any other - nothing set earlier survives
			cp = &stackage.Condition{}
			cp.Init()
			cp.SetID("rule-7").SetCategory("cat").SetParen(true).SetNoPadding(true).SetEncap("'")
			cp.SetAuxiliary(stackage.Auxiliary{"k": 1})
			cp.SetErr(errAmbient)
			cp.SetReadOnly(true)
			cp.Init()
			fresh := &stackage.Condition{}
			fresh.Init()
			if a, b := publicViewOpt(*cp, false), publicViewOpt(*fresh, false); stripLogger(a) != stripLogger(b) {
				reinitProblem = "Init() on a configured, unassembled Condition did not start afresh: " + diffSnap(stripLogger(b), stripLogger(a))
			}
		}
	}); p != "" {
		return st, violf("setup/panic", "%s", p)
	}
	if reinitProblem != "" {
		return st, violf("reinit-cond/Condition.Init", "%s", reinitProblem)
	}
	st.Class("state:" + c.State)
	ms := methodsFor(c.State)
	alive := false // Marshal / Init may legitimately bring the instance to life
	for i, call := range c.Calls {
		m, ok := findMethod(ms, call.Method)
		if !ok {
			continue // method no longer exists: nothing to check
		}
		st.Sub++
		calls := 0
		ctx := &synthCtx{Len: 2, Variant: call.Variant, calls: &calls, ForceAny: call.Arg}
		args, desc := synthArgs(m.Type, true, ctx)
		var recv any
		switch {
		case sp != nil:
			recv = sp
		case cp != nil:
			recv = cp
		default:
			recv = aux
		}
		outs, p := callMethod(recv, m, args)
		key := fmt.Sprintf("%s/%s.%s", c.State, strings.TrimPrefix(m.Owner, "*"), m.Name)
		if p != "" {
			return st, violf(key, "call %d: %s(%s) on a %s receiver panicked: %s", i, m, desc, c.State, p)
		}
		initialises := (m.Name == "Marshal" && sp != nil) || (m.Name == "Init" && cp != nil)
		if initialises {
			alive = true
			st.Class("initialising-call")
		}
		if c.State == "init-cond" || c.State == "reinit-cond" || alive {
			continue // every query just has to return normally
		}
		if prob := zeroResultProblem(m, outs); prob != "" {
			return st, violf(key+"/result", "call %d: %s(%s) on a %s receiver: %s", i, m, desc, c.State, prob)
		}
		switch {
		case sp != nil:
			if !sp.IsZero() || sp.IsInit() {
				return st, violf(key+"/alive", "call %d: %s(%s) brought a %s to life (IsZero=%v IsInit=%v)", i, m, desc, c.State, sp.IsZero(), sp.IsInit())
			}
		case cp != nil:
			if !cp.IsZero() || cp.IsInit() {
				return st, violf(key+"/alive", "call %d: %s(%s) brought a %s to life (IsZero=%v IsInit=%v)", i, m, desc, c.State, cp.IsZero(), cp.IsInit())
			}
		default:
			if aux != nil {
				return st, violf(key+"/alive", "nil Auxiliary became non-nil")
			}
		}
	}
	st.NonTrivial = len(c.Calls) > 0
	sig := c.State
	for _, call := range c.Calls {
		sig += fmt.Sprintf("|%s#%d%s", call.Method, call.Variant, call.Arg)
	}
	st.Sig = sig
	return st, nil
}

func runC17Free(c C17Case) (st Stats, err error) {
	var v *Violation
	p := guard(func() {
		x := Build(*c.Root)
		switch tv := x.(type) {
		case stackage.Stack:
			if c.RO {
				tv.SetReadOnly(true)
			}
			before := Snapshot(tv)
			// other handles to the same instance: a copy of the value, a parent holding it, a Condition holding it
			held := tv
			outer := stackage.And().Push("x", tv)
			holder := stackage.Cond("k", stackage.Eq, tv)
			h := tv
			e := h.Free()
			if c.RO {
				if e == nil || h.IsZero() || Snapshot(tv) != before {
					v = violf("Free/read-only", "Free on a read-only Stack: err=%v IsZero=%v changed=%v", e, h.IsZero(), Snapshot(tv) != before)
				}
				return
			}
			if e != nil || !h.IsZero() || h.IsInit() {
				v = violf("Free/stack", "Free on a writable Stack: err=%v IsZero=%v IsInit=%v", e, h.IsZero(), h.IsInit())
				return
			}
			// whatever the other handles now see (the released instance or a still usable one), no call through
			// them may panic
			if p := guard(func() {
				_ = held.IsInit()
				_ = held.IsZero()
				_ = held.Len()
				_ = held.Kind()
				_ = held.Valid()
				_ = held.String()
				_, _ = held.Unmarshal()
				_, _ = held.Index(0)
				_ = held.IsEqual(held)
				held.Push("y")
				_, _ = held.Pop()
				_ = outer.String()
				_, _ = outer.Unmarshal()
				_ = outer.IsNesting()
				_, _ = outer.Traverse(1, 0)
				_ = outer.IsEqual(outer)
				_ = holder.String()
				_ = holder.Len()
				_ = holder.IsNesting()
				_ = holder.Valid()
				_ = held.Free()
			}); p != "" {
				v = violf("Free/other-handle-panics", "after Free through one handle, a call through another handle to the same instance panicked: %s", p)
				return
			}
			st.Class("free-with-other-handles")
		case stackage.Condition:
			if c.RO {
				tv.SetReadOnly(true)
			}
			before := Snapshot(tv)
			h := tv
			e := h.Free()
			if c.RO {
				if e == nil || h.IsZero() || Snapshot(tv) != before {
					v = violf("Free/read-only", "Free on a read-only Condition: err=%v IsZero=%v changed=%v", e, h.IsZero(), Snapshot(tv) != before)
				}
				return
			}
			if e != nil || !h.IsZero() || h.IsInit() {
				v = violf("Free/cond", "Free on a writable Condition: err=%v IsZero=%v IsInit=%v", e, h.IsZero(), h.IsInit())
			}
		}
	})
	if p != "" {
		return st, violf("Free/panic", "%s", p)
	}
	if v != nil {
		return st, v
	}
	st.Class("free")
	if c.RO {
		st.Class("free-read-only")
	}
	if c.Root.IsCond() && c.Root.Expr != nil && c.Root.Expr.IsStack() && c.Root.Expr.ReadOnly && !c.RO {
		st.Class("free-cond-holding-read-only-stack")
	}
	st.NonTrivial = true
	return st, nil
}

// configOnly renders the configuration of a stack without its content.
func configOnly(s stackage.Stack) string {
	d := stackage.VerifDump(s)
	cfg := cfgOf(d)
	return fmt.Sprint(cfg) + fmt.Sprintf(" Kind=%s Cap=%d FIFO=%v Paren=%v Padded=%v Encap=%v CanNest=%v ID=%q Cat=%q", s.Kind(), s.Cap(), s.IsFIFO(), s.IsParen(), s.IsPadded(), s.IsEncap(), s.CanNest(), s.ID(), s.Category())
}

func runC17Reset(c C17Case) (st Stats, err error) {
	var v *Violation
	hasNil := false
	for _, e := range c.Root.Elems {
		if e.IsLeaf() && e.Leaf.IsNil() {
			hasNil = true
		}
	}
	p := guard(func() {
		s := BuildStack(*c.Root)
		s.SetPushPolicy(nil)
		if c.RejectingValidity {
			// Reset is not a matter of validity: a stack its policy rejects must be emptied all the same
			s.SetValidityPolicy(func(...any) error { return fmt.Errorf("rejected by the validity policy") })
		} else {
			s.SetValidityPolicy(func(...any) error { return nil })
		}
		s.SetID("the-id").SetCategory("the-cat")
		// a history before the Reset (re-built or shifted slot slices): it has no say in what Reset does
		switch c.Prep {
		case "remove0":
			s.Remove(0)
		case "removelast":
			s.Remove(s.Len() - 1)
		case "insertfront":
			s.Insert("front", 0)
		case "pop":
			s.Pop()
		case "remove+insert":
			s.Remove(0)
			s.Insert("front", 0)
		}
		before := configOnly(s)
		s.Reset()
		if s.Len() != 0 || !s.IsEmpty() {
			key := "Reset"
			if hasNil {
				key = "Reset/has-nil"
			}
			v = violf(key, "after Reset Len()=%d (tree %s)", s.Len(), c.Root.Brief())
			return
		}
		if after := configOnly(s); after != before {
			v = violf("Reset/config", "Reset changed the configuration: %s", diffSnap(before, after))
			return
		}
		if !s.IsInit() {
			v = violf("Reset/init", "not initialised after Reset")
			return
		}
		// still usable
		s.Push("again")
		if s.Len() != 1 {
			v = violf("Reset/unusable", "Push after Reset gave Len()=%d", s.Len())
		}
	})
	if p != "" {
		return st, violf("Reset/panic", "%s", p)
	}
	if v != nil {
		return st, v
	}
	st.Class("reset")
	if c.Prep != "" {
		st.Class("reset-after-a-history")
	}
	if c.RejectingValidity {
		st.Class("reset-under-rejecting-validity-policy")
	}
	if hasNil {
		st.Class("reset-with-nil")
	}
	st.NonTrivial = true
	return st, nil
}

func runC17Func(c C17Case) (st Stats, err error) {
	fn, ok := pkgFuncs[c.Func]
	if !ok {
		return st, nil
	}
	defer restoreDefaults()
	ft := reflect.TypeOf(fn)
	ctx := &synthCtx{Len: 2, Variant: c.Variant, SmallInts: true}
	args, desc := synthArgs(ft, false, ctx)
	p := guard(func() { reflect.ValueOf(fn).Call(args) })
	if p != "" {
		return st, violf("func/"+c.Func, "%s(%s) panicked: %s", c.Func, desc, p)
	}
	st.Class("pkgfunc")
	st.NonTrivial = true
	st.Sig = fmt.Sprintf("func|%s#%d", c.Func, c.Variant)
	return st, nil
}

const c17Variants = 8

func enumC17(tier Tier, yield func(C17Case)) {
	for _, state := range c17States {
		for _, m := range methodsFor(state) {
			for v := 0; v < c17Variants; v++ {
				yield(C17Case{Mode: "inert", State: state, Calls: []C17Call{{Method: m.Name, Variant: v}}})
			}
			if m.Type.IsVariadic() {
				// a long argument list (variants whose bits select 33+ values)
				for _, v := range []int{40, 40 + 128*3, 40 + 128*200} {
					yield(C17Case{Mode: "inert", State: state, Calls: []C17Call{{Method: m.Name, Variant: v}}})
				}
			}
			if anyParamMethod(m) {
				// every catalogue entry by name as the `any` argument(s)
				for i, a := range awkwardCatalogue {
					yield(C17Case{Mode: "inert", State: state, Calls: []C17Call{{Method: m.Name, Variant: 1 + i%2, Arg: a.Name}}})
				}
			}
		}
	}
	var names []string
	for n := range pkgFuncs {
		names = append(names, n)
	}
	sortStrings(names)
	for _, n := range names {
		for v := 0; v < 3*c17Variants; v++ {
			yield(C17Case{Mode: "pkgfunc", Func: n, Variant: v})
		}
	}
}

func sortStrings(s []string) {
	for i := 1; i < len(s); i++ {
		for j := i; j > 0 && s[j] < s[j-1]; j-- {
			s[j], s[j-1] = s[j-1], s[j]
		}
	}
}

var c17ResetGen = TreeGen{MaxDepth: 2, MaxWidth: 6, Budget: 14, Kinds: stackKinds,
	Leaf: func(t *rapid.T) Val { return genPrimVal(t, true, true) }, Conds: true, NilLeaves: true, EmptyStacks: true, Options: true, Caps: true, IndexOpts: true, MutexOpt: true, FIFOOpt: true, ZooLeaves: true, OddEncap: true, Ambient: true, WideRuns: true, NoNestAfter: true}

func genC17(t *rapid.T, tier Tier) C17Case {
	switch rapid.IntRange(0, 9).Draw(t, "mode") {
	case 0, 1:
		root := c17ResetGen.Draw(t)
		root.NoNest = false
		// make nil elements frequent
		if rapid.Bool().Draw(t, "addnil") {
			pos := rapid.IntRange(0, len(root.Elems)).Draw(t, "nilpos")
			root.Elems = append(root.Elems[:pos:pos], append([]Node{LeafN(VNil())}, root.Elems[pos:]...)...)
			if root.Cap > 0 && root.Cap < len(root.Elems) {
				root.Cap = len(root.Elems)
			}
		}
		return C17Case{Mode: "reset", Root: &root, RejectingValidity: rapid.IntRange(0, 3).Draw(t, "rejecting-validity") == 0,
			Prep: rapid.SampledFrom([]string{"", "", "remove0", "removelast", "insertfront", "pop", "remove+insert"}).Draw(t, "prep")}
	case 2:
		var root Node
		if rapid.Bool().Draw(t, "cond") {
			g := c17ResetGen
			g.CondExprStack = true
			st := &treeState{g: &g, budget: 6}
			root = st.cond(t, 1)
			root.Wrap = WrapNative
			if root.Expr != nil && root.Expr.IsStack() {
				// the expression's own read-only flag is no business of the Condition's Free
				root.Expr.ReadOnly = rapid.Bool().Draw(t, "expr-readonly")
				root.Expr.Wrap = rapid.SampledFrom([]int{WrapNative, WrapAlias, WrapPtr}).Draw(t, "expr-wrap")
			}
		} else {
			root = c17ResetGen.Draw(t)
		}
		return C17Case{Mode: "free", Root: &root, RO: rapid.Bool().Draw(t, "ro")}
	case 3:
		var names []string
		for n := range pkgFuncs {
			names = append(names, n)
		}
		sortStrings(names)
		return C17Case{Mode: "pkgfunc", Func: rapid.SampledFrom(names).Draw(t, "func"), Variant: rapid.IntRange(0, 400).Draw(t, "variant")}
	}
	c := C17Case{Mode: "inert", State: rapid.SampledFrom(c17States).Draw(t, "state")}
	ms := methodsFor(c.State)
	n := rapid.IntRange(1, 5).Draw(t, "ncalls")
	for i := 0; i < n; i++ {
		c.Calls = append(c.Calls, C17Call{Method: ms[rapid.IntRange(0, len(ms)-1).Draw(t, "method")].Name, Variant: rapid.IntRange(0, 400).Draw(t, "variant")})
	}
	return c
}

func init() {
	Register(Def[C17Case]{
		ID: "C17",
		Rule: "total enumeration: every exported method of Stack/*Stack, Condition/*Condition and Auxiliary (reflection) x 8 argument variants synthesised by parameter type (index boundaries, awkward values, nil/recorder closures, operators, errors, loggers) x receiver states " +
			"{zero Stack, freed Stack, zero Condition, freed Condition, Init()-only Condition, nil Auxiliary}, and every exported package-level function (table generated from /repo's sources by go/parser) x 24 variants; " +
			"rapid: sequences of 1..5 calls on one inert receiver with variants 0..400, Free on writable/read-only Stacks and Conditions, Reset on stacks of every kind/capacity/options/policies with content including nil elements. " +
			"Oracle: no panic; results are the zero result by type (strings lenient, Is* predicates not asserted, errors free); the instance stays zero except after Marshal / Condition.Init; Free zeroes the handle unless read-only; Reset leaves Len()==0 and the configuration untouched. " +
			"non-trivial = every executed call; distinct = (state, method, variant) sequence",
		Gen:         genC17,
		Run:         runC17,
		Enum:        enumC17,
		EnumNote:    "all reflected methods x 8 variants x 6 receiver states, all package-level functions x 24 variants",
		Floors:      map[string]float64{"reset-with-nil": 0.05, "free-read-only": 0.02, "pkgfunc": 0.03, "state:freed-stack": 0.05, "state:nil-aux": 0.03, "initialising-call": 0.005, "free-cond-holding-read-only-stack": 0.002, "reset-under-rejecting-validity-policy": 0.02},
		Assumptions: []string{"string results may be empty or a documented placeholder; Is* predicates (IsZero, IsEmpty, IsPadded) are not asserted on inert receivers", "package-level default loggers/levels are restored after each package-function call"},
	})
}
