package props

// C05 — IsEqual accepts equal trees and rejects any difference.

import (
	"fmt"
	"reflect"
	"unicode"

	stackage "github.com/JesseCoretta/go-stackage"
	"pgregory.net/rapid"
)

type C05Case struct {
	A   Node   `json:"a"`
	B   Node   `json:"b"`   // A with exactly one point mutation ("none": identical)
	Mut string `json:"mut"` // description of the mutation
}

// ---- composite leaf generator ---------------------------------------------------------

func genIntVal(t *rapid.T) Val { return Val{K: "int", I: int64(rapid.IntRange(-5, 50).Draw(t, "iv"))} }

// genElemOfKind: a primitive of the given kind with a small value (element of a typed container).
func genElemOfKind(t *rapid.T, k string) Val {
	if rapid.IntRange(0, 3).Draw(t, "ev-zero?") == 0 {
		// the zero value of the element type: what a missing map key or an unset slot reads as
		if k == "str" {
			return VS("")
		}
		return Val{K: k}
	}
	switch k {
	case "str":
		return VS(rapid.SampledFrom(textWords).Draw(t, "ev-s"))
	case "bool":
		return Val{K: "bool", B: rapid.Bool().Draw(t, "ev-b")}
	case "f32", "f64":
		return Val{K: k, F: rapid.SampledFrom([]float64{0, 1.5, -2.25, 1e9}).Draw(t, "ev-f")}
	case "c128":
		return Val{K: k, F: float64(rapid.IntRange(-2, 2).Draw(t, "ev-re")), I: int64(rapid.IntRange(-2, 2).Draw(t, "ev-im"))}
	}
	return Val{K: k, I: clampInt(k, int64(rapid.IntRange(0, 200).Draw(t, "ev-i")))}
}

var containerElemKinds = []string{"uint8", "uint8", "int8", "int16", "int32", "int64", "uint", "uint16", "uint32", "uint64", "str", "bool", "f32", "f64", "c128"}

func genCompositeVal(t *rapid.T) Val {
	switch rapid.IntRange(0, 18).Draw(t, "compclass") {
	case 15, 16, 17: // slice or array (held by value) of any primitive element type: bytes, bools, floats, ...
		k := rapid.SampledFrom(containerElemKinds).Draw(t, "elemkind")
		v := Val{K: rapid.SampledFrom([]string{"slice", "array", "array"}).Draw(t, "seqkind")}
		n := rapid.IntRange(1, 8).Draw(t, "seqlen")
		for i := 0; i < n; i++ {
			v.Elems = append(v.Elems, genElemOfKind(t, k))
		}
		return v
	case 18: // map[string]T for any primitive T
		k := rapid.SampledFrom(containerElemKinds).Draw(t, "mapelemkind")
		v := Val{K: "map"}
		n := rapid.IntRange(1, 4).Draw(t, "mlen")
		for i := 0; i < n; i++ {
			v.Keys = append(v.Keys, fmt.Sprintf("k%d", i))
			v.Elems = append(v.Elems, genElemOfKind(t, k))
		}
		return v
	case 0, 1: // slice of ints
		n := rapid.IntRange(1, 9).Draw(t, "slen")
		v := Val{K: "slice"}
		for i := 0; i < n; i++ {
			v.Elems = append(v.Elems, genIntVal(t))
		}
		return v
	case 2: // slice of strings
		n := rapid.IntRange(1, 5).Draw(t, "slen")
		v := Val{K: "slice"}
		for i := 0; i < n; i++ {
			v.Elems = append(v.Elems, VS(rapid.SampledFrom(textWords).Draw(t, "sv")))
		}
		return v
	case 3: // slice of pointers to int
		n := rapid.IntRange(1, 4).Draw(t, "slen")
		v := Val{K: "slice"}
		for i := 0; i < n; i++ {
			v.Elems = append(v.Elems, Val{K: "ptr", Depth: 1, Elems: []Val{genIntVal(t)}})
		}
		return v
	case 4: // array of ints
		n := rapid.IntRange(1, 4).Draw(t, "alen")
		v := Val{K: "array"}
		for i := 0; i < n; i++ {
			v.Elems = append(v.Elems, genIntVal(t))
		}
		return v
	case 5, 6: // map[string]int / map[string]string / map[string]*int
		n := rapid.IntRange(1, 4).Draw(t, "mlen")
		v := Val{K: "map"}
		ek := rapid.SampledFrom([]string{"int", "str", "ptr"}).Draw(t, "mapelem")
		for i := 0; i < n; i++ {
			v.Keys = append(v.Keys, fmt.Sprintf("k%d", i))
			switch ek {
			case "str":
				v.Elems = append(v.Elems, genElemOfKind(t, "str"))
			case "ptr":
				v.Elems = append(v.Elems, Val{K: "ptr", Depth: 1, Elems: []Val{genIntVal(t)}})
			default:
				if rapid.IntRange(0, 3).Draw(t, "mv-zero?") == 0 {
					v.Elems = append(v.Elems, VI(0))
				} else {
					v.Elems = append(v.Elems, genIntVal(t))
				}
			}
		}
		return v
	case 7: // map[int]string
		n := rapid.IntRange(1, 4).Draw(t, "mlen")
		v := Val{K: "imap"}
		for i := 0; i < n; i++ {
			v.Keys = append(v.Keys, fmt.Sprintf("%d", i*3))
			v.Elems = append(v.Elems, VS(rapid.SampledFrom(textWords).Draw(t, "mv")))
		}
		return v
	case 8, 12, 13, 14:
		return Val{K: rapid.SampledFrom([]string{"pub", "priv", "emb", "ponly", "iface"}).Draw(t, "structkind"), I: int64(rapid.IntRange(0, 9).Draw(t, "sa")),
			S: rapid.SampledFrom(textWords).Draw(t, "sb"), F: float64(rapid.IntRange(0, 5).Draw(t, "sc")), B: rapid.Bool().Draw(t, "sd")}
	case 9:
		n := rapid.IntRange(1, 3).Draw(t, "pslen")
		v := Val{K: "pstruct", I: int64(rapid.IntRange(0, 9).Draw(t, "pp"))}
		for i := 0; i < n; i++ {
			v.Elems = append(v.Elems, genIntVal(t))
		}
		return v
	default: // pointer to a primitive, depth 1..3
		k := rapid.SampledFrom([]string{"int", "str", "f64", "bool"}).Draw(t, "pk")
		var e Val
		switch k {
		case "int":
			e = genIntVal(t)
		case "str":
			e = VS(rapid.SampledFrom(textWords).Draw(t, "ps"))
		case "f64":
			e = Val{K: "f64", F: rapid.SampledFrom([]float64{0, 1.5, -2.25}).Draw(t, "pf")}
		default:
			e = Val{K: "bool", B: rapid.Bool().Draw(t, "pb")}
		}
		depth := rapid.IntRange(1, 3).Draw(t, "pdepth")
		if rapid.IntRange(0, 5).Draw(t, "deepptr?") == 0 {
			depth = rapid.IntRange(4, 20).Draw(t, "deepptr")
		}
		return Val{K: "ptr", Depth: depth, Elems: []Val{e}}
	}
}

func genC05Leaf(t *rapid.T) Val {
	if rapid.IntRange(0, 9).Draw(t, "composite?") < 5 {
		return genCompositeVal(t)
	}
	v := genPrimVal(t, true, true)
	return v
}

// ---- mutation ------------------------------------------------------------------------

// mutatePrim returns a value of the same kind that is certainly different.
// nearString returns a string that differs from s only slightly (case of one letter, an added
// blank, an added character), chosen by variant: comparisons must not be case- or blank-insensitive.
func nearString(s string, variant int) string {
	switch variant % 4 {
	case 0:
		r := []rune(s)
		for i, c := range r {
			if unicode.IsLower(c) && unicode.ToLower(unicode.ToUpper(c)) == c && unicode.ToUpper(c) != c {
				r[i] = unicode.ToUpper(c)
				return string(r)
			}
			if unicode.IsUpper(c) && unicode.ToLower(c) != c {
				r[i] = unicode.ToLower(c)
				return string(r)
			}
		}
	case 1:
		return s + " "
	case 2:
		return " " + s
	}
	return s + "~"
}

var mutVariant int // advanced by every string mutation so that all variants occur

// zeroTag marks map entries whose value is the zero value of its type (a lookup of a missing key reads the same).
func zeroTag(e Val) string {
	switch e.K {
	case "ptr", "slice", "array", "map", "imap":
		return ""
	}
	if rv := reflect.ValueOf(e.Value()); rv.IsValid() && rv.IsZero() {
		return "-under-zero-value"
	}
	return ""
}

func mutatePrim(v Val) Val {
	w := v
	switch v.K {
	case "str", "stringer":
		mutVariant++
		w.S = nearString(v.S, mutVariant)
		if w.S == v.S {
			w.S = v.S + "~"
		}
		return w
	case "str-plain":
		w.S = v.S + "~"
	case "bool":
		w.B = !v.B
	case "f32", "f64", "c64", "c128":
		if v.F == 2.5 {
			w.F = 3.5
		} else {
			w.F = 2.5
		}
	default: // integers
		w.I = clampInt(v.K, v.I+1)
		if w.I == v.I {
			w.I = clampInt(v.K, v.I-1)
		}
		if w.Value() == v.Value() {
			if v.I == 0 {
				w.I = 1
			} else {
				w.I = 0
			}
		}
	}
	return w
}

// typeChanged: a value of ANOTHER Go type whose printed form is the same.
func typeChanged(v Val) (Val, bool) {
	switch v.K {
	case "int":
		return Val{K: "int64", I: v.I}, true
	case "int8", "int16", "int32", "int64", "uint8", "uint16", "uint32":
		return Val{K: "str", S: v.Text()}, true
	case "uint", "uint64":
		if v.I >= 0 {
			return Val{K: "int64", I: v.I}, true
		}
		return Val{K: "str", S: v.Text()}, true
	case "bool", "f64", "f32":
		return Val{K: "str", S: v.Text()}, true
	case "str":
		if v.S == "true" || v.S == "false" {
			return Val{K: "bool", B: v.S == "true"}, true
		}
		return Val{K: "stringer", S: v.S}, true
	case "stringer":
		return Val{K: "str", S: v.S}, true
	}
	return v, false
}

type c05Site struct {
	apply func()
	desc  string
	class string
}

func cloneNode(n Node) Node {
	c := n
	if n.Leaf != nil {
		l := cloneVal(*n.Leaf)
		c.Leaf = &l
	}
	if n.Expr != nil {
		e := cloneNode(*n.Expr)
		c.Expr = &e
	}
	c.Elems = nil
	for _, e := range n.Elems {
		c.Elems = append(c.Elems, cloneNode(e))
	}
	c.Encap = nil
	for _, e := range n.Encap {
		c.Encap = append(c.Encap, append([]string{}, e...))
	}
	return c
}

func cloneVal(v Val) Val {
	c := v
	c.Elems = nil
	for _, e := range v.Elems {
		c.Elems = append(c.Elems, cloneVal(e))
	}
	c.Keys = append([]string{}, v.Keys...)
	if v.Keys == nil {
		c.Keys = nil
	}
	return c
}

func posClass(i, n int) string {
	switch {
	case i == 0:
		return "first"
	case i == n-1:
		return "last"
	}
	return "middle"
}

// leafSites lists the single-point mutations available inside one leaf value.
func leafSites(v *Val, where string, depth int) []c05Site {
	var out []c05Site
	dcls := "top"
	if depth >= 1 {
		dcls = "nested"
	}
	switch v.K {
	case "nil":
		out = append(out, c05Site{func() { *v = VI(7) }, where + " nil->int", "leaf/nil->value/" + dcls})
	case "ptr":
		e := &v.Elems[0]
		out = append(out, c05Site{func() { *e = mutatePrim(*e) }, fmt.Sprintf("%s pointee (depth %d)", where, v.Depth), fmt.Sprintf("ptr/depth%d/%s", v.Depth, dcls)})
	case "slice", "array":
		n := len(v.Elems)
		for i := range v.Elems {
			i := i
			e := &v.Elems[i]
			out = append(out, c05Site{func() {
				if e.K == "ptr" {
					e.Elems[0] = mutatePrim(e.Elems[0])
				} else {
					*e = mutatePrim(*e)
				}
			}, fmt.Sprintf("%s %s element %d of %d", where, v.K, i, n), v.K + "/elem/" + posClass(i, n)})
		}
	case "map", "imap":
		n := len(v.Elems)
		for i := range v.Elems {
			i := i
			e := &v.Elems[i]
			out = append(out, c05Site{func() {
				if e.K == "ptr" {
					e.Elems[0] = mutatePrim(e.Elems[0])
				} else {
					*e = mutatePrim(*e)
				}
			}, fmt.Sprintf("%s %s value %d of %d", where, v.K, i, n), "map/value/" + posClass(i, n)})
			out = append(out, c05Site{func() {
				if v.K == "imap" {
					v.Keys[i] = v.Keys[i] + "1"
				} else {
					v.Keys[i] = v.Keys[i] + "~"
				}
			}, fmt.Sprintf("%s %s key %d of %d", where, v.K, i, n), "map/key-changed" + zeroTag(*e)})
		}
	case "pub", "priv", "emb":
		out = append(out, c05Site{func() { v.I++ }, where + " struct field A", "struct/" + v.K + "/field0"})
		out = append(out, c05Site{func() { v.S += "~" }, where + " struct field B", "struct/" + v.K + "/fieldB"})
		if v.K == "pub" || v.K == "emb" {
			out = append(out, c05Site{func() { v.F += 1 }, where + " struct field C", "struct/" + v.K + "/fieldC"})
		}
		if v.K == "emb" {
			out = append(out, c05Site{func() { v.B = !v.B }, where + " struct field D", "struct/emb/fieldD"})
		}
	case "ponly":
		out = append(out, c05Site{func() { v.I++ }, where + " comparable struct, pointer field P", "struct/ponly/ptrfield"})
		out = append(out, c05Site{func() { v.F += 1 }, where + " comparable struct, field N", "struct/ponly/fieldN"})
	case "iface":
		out = append(out, c05Site{func() { v.S += "~" }, where + " struct interface field V", "struct/iface/fieldV"})
		out = append(out, c05Site{func() { v.I++ }, where + " struct field N", "struct/iface/fieldN"})
	case "pstruct":
		out = append(out, c05Site{func() { v.I++ }, where + " struct pointer field P", "struct/pstruct/ptrfield"})
		for i := range v.Elems {
			e := &v.Elems[i]
			out = append(out, c05Site{func() { *e = mutatePrim(*e) }, fmt.Sprintf("%s struct slice field S element %d", where, i), "struct/pstruct/slicefield/" + posClass(i, len(v.Elems))})
		}
	default:
		out = append(out, c05Site{func() { *v = mutatePrim(*v) }, where + " primitive " + v.K, "leaf/primitive/" + dcls})
		if tc, ok := typeChanged(*v); ok {
			// the same printed form under another Go type (5 / "5", uint8(7) / int(7), true / "true")
			out = append(out, c05Site{func() { *v = tc }, where + " primitive " + v.K + " -> " + tc.K + " with the same text", "leaf/type-change-same-text"})
		}
	}
	return out
}

// nodeJSONKey identifies a sibling *up to what IsEqual documents as invisible*: pointers are
// dereferenced at any depth (also inside containers), slices and arrays are not told apart.
// Two siblings with the same key are never swapped (the swap would be an invisible mutation).
func nodeJSONKey(n Node) string {
	switch n.T {
	case "leaf":
		return derefKey(*n.Leaf)
	case "cond":
		e := ""
		if n.Expr != nil {
			e = nodeJSONKey(*n.Expr)
		}
		return fmt.Sprintf("cond(%q %s %s)", n.KW, n.Op.TextOf()+"/"+n.Op.Ctx+n.Op.K, e)
	}
	parts := ""
	for _, e := range n.Elems {
		parts += nodeJSONKey(e) + ","
	}
	return fmt.Sprintf("%s/%d[%s]", n.Kind, n.Cap, parts)
}

func derefKey(v Val) string {
	switch v.K {
	case "ptr":
		return derefKey(v.Elems[0])
	case "slice", "array":
		parts := ""
		for _, e := range v.Elems {
			parts += derefKey(e) + ","
		}
		return "seq[" + parts + "]"
	case "map", "imap":
		parts := ""
		for i, e := range v.Elems {
			parts += v.Keys[i] + ":" + derefKey(e) + ","
		}
		return v.K + "[" + parts + "]"
	}
	return v.String()
}

func nodeSites(n *Node, where string, depth int, isRoot bool) []c05Site {
	var out []c05Site
	switch n.T {
	case "leaf":
		out = append(out, leafSites(n.Leaf, where, depth)...)
	case "stack":
		out = append(out, c05Site{func() {
			for _, k := range stackKinds {
				if k != n.Kind {
					n.Kind = k
					return
				}
			}
		}, where + " kind", "stack/kind"})
		out = append(out, c05Site{func() {
			if n.Cap > 0 {
				n.Cap++
			} else {
				n.Cap = len(n.Elems) + 1
			}
		}, where + " capacity", "stack/capacity"})
		out = append(out, c05Site{func() { n.Elems = append(n.Elems, LeafN(VS("extra"))); growCap(n) }, where + " one element more", "stack/add"})
		if len(n.Elems) > 0 {
			out = append(out, c05Site{func() { n.Elems = n.Elems[:len(n.Elems)-1] }, where + " last element dropped", "stack/drop"})
		}
		for i := 0; i+1 < len(n.Elems); i++ {
			i := i
			j := len(n.Elems) - 1
			if nodeJSONKey(n.Elems[i]) != nodeJSONKey(n.Elems[j]) {
				out = append(out, c05Site{func() { n.Elems[i], n.Elems[j] = n.Elems[j], n.Elems[i] }, fmt.Sprintf("%s siblings %d and %d swapped", where, i, j), "stack/swap"})
				break
			}
		}
		for i := range n.Elems {
			out = append(out, nodeSites(&n.Elems[i], fmt.Sprintf("%s[%d]", where, i), depth+1, false)...)
		}
		if !isRoot {
			// the same position holds a Condition (around the former stack) instead of the stack
			out = append(out, c05Site{func() {
				inner := *n
				inner.Wrap = 0
				*n = Node{T: "cond", KW: "k", Op: OpEq(), Expr: &inner}
			}, where + " stack replaced by a Condition holding it", "node/stack-to-cond"})
		}
	case "cond":
		if !isRoot {
			// the same position holds a Stack (of the former keyword and expression) instead of the Condition
			out = append(out, c05Site{func() {
				repl := Node{T: "stack", Kind: "LIST", Elems: []Node{LeafN(VS(n.KW))}}
				if n.Expr != nil {
					repl.Elems = append(repl.Elems, *n.Expr)
				}
				*n = repl
			}, where + " Condition replaced by a Stack of its keyword and expression", "node/cond-to-stack"})
		}
		out = append(out, c05Site{func() { n.KW += "x" }, where + " keyword", "cond/keyword"})
		out = append(out, c05Site{func() {
			k := nearString(n.KW, 0)
			if k == n.KW {
				k = n.KW + " "
			}
			n.KW = k
		}, where + " keyword (letter case / blank only)", "cond/keyword-case"})
		out = append(out, c05Site{func() {
			if n.Op.K == "cmp" {
				n.Op.I = n.Op.I%6 + 1
			} else {
				n.Op = OpDesc{K: "cmp", I: 1}
			}
		}, where + " operator", "cond/operator"})
		if n.Op.K == "user" || n.Op.K == "uslice" {
			out = append(out, c05Site{func() { n.Op.Ctx += "x" }, where + " operator context", "cond/operator-context"})
		}
		if n.Expr != nil {
			out = append(out, nodeSites(n.Expr, where+".expr", depth+1, false)...)
		}
	}
	return out
}

func growCap(n *Node) {
	if n.Cap > 0 && n.Cap < len(n.Elems) {
		n.Cap = len(n.Elems)
	}
}

// bumpPointees adds delta to every *int / **int / ***int element (and Condition expression) reachable in
// the real object x, in place; returns how many pointees it changed.
func bumpPointees(x any, delta int) int {
	n := 0
	var visit func(v any)
	visit = func(v any) {
		switch tv := v.(type) {
		case *int:
			if tv != nil {
				*tv += delta
				n++
			}
		case **int:
			if tv != nil && *tv != nil {
				**tv += delta
				n++
			}
		case ***int:
			if tv != nil && *tv != nil && **tv != nil {
				***tv += delta
				n++
			}
		case stackage.Stack:
			for i := 0; i < tv.Len(); i++ {
				e, _ := tv.Index(i)
				visit(e)
			}
		case stackage.Condition:
			visit(tv.Expression())
		}
	}
	visit(x)
	return n
}

// ---- run -----------------------------------------------------------------------------

type equaler interface{ IsEqual(any) error }

func runC05(c C05Case) (st Stats, err error) {
	var v *Violation
	hasPriv, hasComposite := false, false
	c.A.Walk(func(n Node, d int) {
		if n.IsLeaf() {
			switch n.Leaf.K {
			case "priv":
				hasPriv = true
			case "slice", "array", "map", "imap", "pub", "emb", "pstruct", "ptr", "ponly", "iface":
				hasComposite = true
				if n.Leaf.K == "ponly" {
					st.Class("comparable-struct-with-pointer-present")
				}
			}
		}
	})
	if hasPriv {
		st.Class("private-field-struct-present")
	}
	if hasComposite {
		st.Class("composite-leaf-present")
	}
	p := guard(func() {
		a1, ok1 := BuildWith(c.A, BuildOpts{AllNative: true}).(equaler)
		a2, ok2 := BuildWith(c.A, BuildOpts{AllNative: true}).(equaler)
		if !ok1 || !ok2 {
			v = violf("harness", "root is not a Stack/Condition")
			return
		}
		if e := a1.IsEqual(a2); e != nil {
			v = violf("equal-pair-rejected", "two independent builds of one description are not IsEqual: %v\n  tree %s", e, c.A.Brief())
			return
		}
		if e := a2.IsEqual(a1); e != nil {
			v = violf("equal-pair-rejected", "IsEqual is not symmetric on an equal pair (reverse: %v)\n  tree %s", e, c.A.Brief())
			return
		}
		if e := a1.IsEqual(a1); e != nil {
			v = violf("self-rejected", "an instance is not IsEqual to itself: %v\n  tree %s", e, c.A.Brief())
			return
		}
		// the same two objects compared again after a pointee was changed IN PLACE (and once more after it
		// was changed back): a verdict is about the values as they are now, not as they were when the pair was
		// first compared
		if n := bumpPointees(a2, +1); n > 0 {
			e1, e2 := a1.IsEqual(a2), a2.IsEqual(a1)
			bumpPointees(a2, -1)
			if e1 == nil || e2 == nil {
				v = violf("difference-accepted/in-place-pointee-change", "after %d pointee(s) of the second instance were changed in place the pair still compares equal: A.IsEqual(B)=%v, B.IsEqual(A)=%v\n  tree %s", n, e1, e2, c.A.Brief())
				return
			}
			if e := a1.IsEqual(a2); e != nil {
				v = violf("equal-pair-rejected/after-restoring-pointees", "after the pointees were restored the pair compares unequal: %v", e)
				return
			}
			st.Class("in-place-pointee-change")
		}
		if c.Mut == "none" {
			st.Class("equal-only")
			return
		}
		b := BuildWith(c.B, BuildOpts{AllNative: true}).(equaler)
		e1 := a1.IsEqual(b)
		e2 := b.IsEqual(a1)
		if e1 == nil || e2 == nil {
			v = violf("difference-accepted/"+mutClass(c.Mut), "a single difference (%s) is not reported: A.IsEqual(B)=%v, B.IsEqual(A)=%v\n  A %s\n  B %s", c.Mut, e1, e2, c.A.Brief(), c.B.Brief())
			return
		}
	})
	if p != "" {
		return st, violf("isequal/panic/"+mutClass(c.Mut), "IsEqual panicked (%s): %s\n  A %s\n  B %s", c.Mut, p, c.A.Brief(), c.B.Brief())
	}
	if v != nil {
		return st, v
	}
	if c.Mut != "none" {
		st.Class("mut:" + mutClass(c.Mut))
		st.NonTrivial = true
	}
	return st, nil
}

// the mutation class is carried as the part of Mut before " @ "
func mutClass(m string) string {
	for i := 0; i+2 < len(m); i++ {
		if m[i:i+3] == " @ " {
			return m[:i]
		}
	}
	return m
}

func c05TreeGen(tier Tier) TreeGen {
	g := TreeGen{
		MaxDepth: 3, MaxWidth: 7, Budget: 22,
		Kinds: stackKinds,
		Leaf:  genC05Leaf,
		Conds: true, CondExprStack: true, NotAsCondExpr: true,
		Caps: true, EmptyStacks: true, IndexOpts: true, FIFOOpt: true, RejectValidity: true, DeepChains: true, Ambient: true, Pasts: true, WideRuns: true, NoNestAfter: true, ReadOnlyNodes: true,
		Options: true, // symbols, delimiters, fold ...: presentation settings must never mask a real difference
	}
	if tier.Thorough {
		g.MaxDepth, g.MaxWidth, g.Budget = 4, 9, 34
	}
	return g
}

func genC05(t *rapid.T, tier Tier) C05Case {
	var a Node
	if rapid.IntRange(0, 7).Draw(t, "rootcond") == 0 {
		// a Condition at top level
		st := &treeState{g: func() *TreeGen { g := c05TreeGen(tier); return &g }(), budget: 12}
		a = st.cond(t, 1)
	} else {
		a = c05TreeGen(tier).Draw(t)
	}
	c := C05Case{A: a, B: cloneNode(a), Mut: "none"}
	if rapid.IntRange(0, 4).Draw(t, "mutate?") == 0 {
		return c
	}
	sites := nodeSites(&c.B, "root", 0, true)
	if len(sites) == 0 {
		return c
	}
	// choose the mutation category first (uniformly among those present), then a
	// site within it: otherwise the many structural sites drown the container ones
	cats := map[string][]int{}
	var catNames []string
	for i, s := range sites {
		cat := s.class
		for j := 0; j < len(cat); j++ {
			if cat[j] == '/' {
				cat = cat[:j]
				break
			}
		}
		if _, ok := cats[cat]; !ok {
			catNames = append(catNames, cat)
		}
		cats[cat] = append(cats[cat], i)
	}
	cat := rapid.SampledFrom(catNames).Draw(t, "mutcat")
	idx := cats[cat][rapid.IntRange(0, len(cats[cat])-1).Draw(t, "site")]
	sites[idx].apply()
	c.Mut = sites[idx].class + " @ " + sites[idx].desc
	return c
}

func init() {
	Register(Def[C05Case]{
		ID: "C05",
		Rule: "rapid-generated descriptions (stack trees of every kind, capacity on some nodes, Conditions, and 1 in 8 a top-level Condition) whose leaves are primitives, pointers to primitives (depth 1-3), slices/arrays/maps (string- and int-keyed) of primitives or of pointers, " +
			"structs (exported, with an unexported field, with an embedded exported struct, with pointer and slice fields); pair (D, independent rebuild of D) must be IsEqual both ways; pair (D, D with exactly one point mutation: a leaf, one slice/array element or map value at every position, a map key, " +
			"a struct field, pointee, keyword, operator, operator context, kind, capacity, sibling swap, one element more/fewer) must be rejected both ways; no panic. non-trivial = the pair carries a mutation; distinct = distinct (A,B) JSON",
		Gen: genC05,
		Run: runC05,
		Floors: map[string]float64{"equal-only": 0.1, "mut:slice/elem/middle": 0.01, "mut:slice/elem/last": 0.01, "mut:map/value/last": 0.003, "mut:map/key-changed": 0.005, "mut:map/key-changed-under-zero-value": 0.002,
			"private-field-struct-present": 0.02, "mut:stack/swap": 0.003, "mut:cond/operator": 0.01, "mut:cond/keyword-case": 0.005, "mut:node/cond-to-stack": 0.005, "mut:leaf/type-change-same-text": 0.02, "in-place-pointee-change": 0.02, "mut:node/stack-to-cond": 0.005, "mut:stack/kind": 0.01, "mut:ptr/depth3/nested": 0.002, "mut:struct/priv/fieldB": 0.001, "comparable-struct-with-pointer-present": 0.01},
		Assumptions: []string{"NaN, typed-nil pointers, containers nested in containers, functions and channels are not generated (outside the statement)",
			"unexported struct fields are never mutated (documented as ignored); slices are built with cap==len (capacity is part of the documented slice comparison)"},
	})
}
