package props

import (
	"fmt"
	"os"
	"testing"
)

// TestProp runs the property named by VERIF_PROP (enumeration + rapid).
func TestProp(t *testing.T) {
	id := os.Getenv("VERIF_PROP")
	if id == "" {
		t.Skip("VERIF_PROP not set")
	}
	r, ok := registry[id]
	if !ok {
		t.Fatalf("unknown property %q", id)
	}
	r.runAll(t)
}

// TestReplay re-executes one saved case (VERIF_REPLAY=<file>) without rapid.
func TestReplay(t *testing.T) {
	path := os.Getenv("VERIF_REPLAY")
	if path == "" {
		t.Skip("VERIF_REPLAY not set")
	}
	id := os.Getenv("VERIF_PROP")
	r, ok := registry[id]
	if !ok {
		t.Fatalf("unknown property %q", id)
	}
	raw, err := os.ReadFile(path)
	if err != nil {
		t.Fatal(err)
	}
	if err := r.replay(raw); err != nil {
		fmt.Printf("REPLAY-FAIL: property=%s %v\n", id, err)
		t.Fatalf("replayed case violates %s: %v", id, err)
	}
	fmt.Printf("REPLAY-OK: property=%s\n", id)
}

func fuzzProp(f *testing.F, id string) {
	r, ok := registry[id]
	if !ok {
		f.Skip("property not registered: " + id)
	}
	r.fuzz(f)
}

func FuzzC02(f *testing.F) { fuzzProp(f, "C02") }
func FuzzC04(f *testing.F) { fuzzProp(f, "C04") }
func FuzzC05(f *testing.F) { fuzzProp(f, "C05") }
func FuzzC07(f *testing.F) { fuzzProp(f, "C07") }
func FuzzC16(f *testing.F) { fuzzProp(f, "C16") }
func FuzzC20(f *testing.F) { fuzzProp(f, "C20") }
