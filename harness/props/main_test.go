package props

import (
	"fmt"
	"os"
	"testing"
)

// TestProp runs the property named by VERIF_PROP (enumeration + rapid).
func TestProp(t *testing.T) {
	id := os.Getenv("VERIF_PROP")
	if id == "" {
		t.Skip("VERIF_PROP not set")
	}
	r, ok := registry[id]
	if !ok {
		t.Fatalf("unknown property %q", id)
	}
	r.runAll(t)
}

// TestReplay re-executes one saved case (VERIF_REPLAY=<file>) without rapid.
func TestReplay(t *testing.T) {
	path := os.Getenv("VERIF_REPLAY")
	if path == "" {
		t.Skip("VERIF_REPLAY not set")
	}
	id := os.Getenv("VERIF_PROP")
	r, ok := registry[id]
	if !ok {
		t.Fatalf("unknown property %q", id)
	}
	raw, err := os.ReadFile(path)
	if err != nil {
		t.Fatal(err)
	}
	if err := r.replay(raw); err != nil {
		fmt.Printf("REPLAY-FAIL: property=%s %v\n", id, err)
		t.Fatalf("replayed case violates %s: %v", id, err)
	}
	fmt.Printf("REPLAY-OK: property=%s\n", id)
}
