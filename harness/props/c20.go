package props

// C20 — Reveal only removes redundant wrappers.

import (
	"fmt"
	"sort"
	"strings"

	stackage "github.com/JesseCoretta/go-stackage"
	"pgregory.net/rapid"
)

type C20Case struct {
	Root Node `json:"root"`
}

type nfNode struct {
	kind     string // leaf | stack | cond
	label    string
	paren    bool
	not      bool
	children []*nfNode
}

type rvStack struct {
	paren, not bool
	n          int
	childKind  string // of the only child when n==1: leaf stack cond nil
	childParen bool
	depth      int
}

type rvInfo struct {
	leafSeq []string
	depth   int
	nodes   int
	stacks  map[string]rvStack // by underlying identity
	order   []string
}

// walkReal inspects a real object through Len/Index/Expression/Kind/IsParen/Keyword/Operator only.
func walkReal(x any, depth int, info *rvInfo) *nfNode {
	if depth > info.depth {
		info.depth = depth
	}
	if x == nil {
		info.leafSeq = append(info.leafSeq, "nil")
		return &nfNode{kind: "leaf", label: "nil"}
	}
	if s, ok := unwrapStack(x); ok && s.IsInit() {
		info.nodes++
		id := normIdent(s)
		n := &nfNode{kind: "stack", label: s.Kind(), paren: rawParen(s), not: strings.EqualFold(s.Kind(), "NOT")}
		rs := rvStack{paren: n.paren, not: n.not, n: s.Len(), depth: depth}
		for i := 0; i < s.Len(); i++ {
			v, _ := s.Index(i)
			c := walkReal(v, depth+1, info)
			n.children = append(n.children, c)
			if s.Len() == 1 {
				rs.childKind = c.kind
				if v == nil {
					rs.childKind = "nil"
				}
				rs.childParen = c.paren
			}
		}
		if _, dup := info.stacks[id]; !dup {
			info.order = append(info.order, id)
		}
		info.stacks[id] = rs
		return n
	}
	if c, ok := unwrapCond(x); ok && c.IsInit() {
		info.nodes++
		op := "<nil>"
		if c.Operator() != nil {
			op = c.Operator().String()
		}
		info.leafSeq = append(info.leafSeq, fmt.Sprintf("cond(%q %s)", c.Keyword(), op))
		n := &nfNode{kind: "cond", label: fmt.Sprintf("%q %s", c.Keyword(), op), paren: rawParen(c)}
		n.children = []*nfNode{walkReal(c.Expression(), depth+1, info)}
		return n
	}
	info.leafSeq = append(info.leafSeq, fmt.Sprintf("%T:%v", x, x))
	switch x.(type) {
	case stackage.Stack, stackage.Condition, *stackage.Stack, *stackage.Condition:
		// a hollow value of the library's own types (zero value, nil pointer): a Stack / Condition by type, nothing
		// by content. Whether a wrapper around just that counts as "needless" is left open (both readings of "one
		// Stack or Condition child" are accepted): the normal form unwraps it on both sides.
		return &nfNode{kind: "hollow", label: fmt.Sprintf("%T:%v", x, x)}
	}
	return &nfNode{kind: "leaf", label: fmt.Sprintf("%T:%v", x, x)}
}

// rawParen reads the parenthetical option bit from the configuration record (VerifDump): what
// Reveal must respect is the option as set, whatever IsParen() chooses to report.
func rawParen(x any) bool {
	opt, _ := cfgOf(stackage.VerifDump(x))["opt"].(uint16)
	return int(opt)&bParen != 0
}

func eligibleWrapper(n *nfNode) bool {
	if n.kind != "stack" || n.paren || n.not || len(n.children) != 1 {
		return false
	}
	c := n.children[0]
	return (c.kind == "stack" || c.kind == "cond" || c.kind == "hollow") && !c.paren
}

// normalise unwraps every eligible wrapper below n (n itself is kept).
func normalise(n *nfNode) {
	for i := range n.children {
		normalise(n.children[i])
		for eligibleWrapper(n.children[i]) {
			n.children[i] = n.children[i].children[0]
		}
	}
}

func (n *nfNode) String() string {
	switch n.kind {
	case "leaf", "hollow":
		return n.label
	}
	var parts []string
	for _, c := range n.children {
		parts = append(parts, c.String())
	}
	p := ""
	if n.paren {
		p = "()"
	}
	return n.kind + ":" + n.label + p + "[" + strings.Join(parts, ",") + "]"
}

func runC20(c C20Case) (st Stats, err error) {
	var root stackage.Stack
	if p := guard(func() { root = BuildStack(c.Root) }); p != "" {
		return st, violf("setup/panic", "%s", p)
	}
	before := &rvInfo{stacks: map[string]rvStack{}}
	nfB := walkReal(root, 0, before)
	rawB := nfB.String()
	normalise(nfB)

	// classification (on the description)
	eligibleDeep, ineligibleSingle, mutexNodes, chain := false, false, 0, 0
	var classify func(n Node, depth int, run int)
	classify = func(n Node, depth int, run int) {
		if n.IsStack() {
			if n.Mutex {
				mutexNodes++
				if n.ReadOnly && depth >= 1 {
					st.Class("read-only-mutex-member")
				}
			}
			if len(n.Elems) == 1 {
				ch := n.Elems[0]
				elig := !n.Paren && n.Kind != "NOT" && (ch.IsStack() || ch.IsCond()) && !ch.Paren
				if elig && depth >= 1 {
					eligibleDeep = true
					run++
					if run > chain {
						chain = run
					}
				} else {
					if depth >= 1 {
						ineligibleSingle = true
					}
					run = 0
				}
			} else {
				run = 0
			}
			for _, e := range n.Elems {
				classify(e, depth+1, run)
			}
		}
		if n.IsCond() && n.Expr != nil {
			if n.Expr.IsStack() {
				st.Class("cond-holding-stack")
			}
			classify(*n.Expr, depth+1, 0)
		}
	}
	classify(c.Root, 0, 0)
	if chain > 0 {
		st.Class(fmt.Sprintf("chain-length-%d", min(chain, 4)))
	}
	if mutexNodes > 0 {
		st.Class("mutex-nodes")
	}
	st.NonTrivial = eligibleDeep && ineligibleSingle

	// ---- run Reveal with deterministic lock-ownership tracking
	held := map[uintptr]bool{}
	stackage.VerifHook = func(ev string, id uintptr) {
		switch ev {
		case "lock.want":
			if held[id] {
				panic(fmt.Sprintf("self-deadlock: lock of stack %#x requested while already held by the same call", id))
			}
		case "lock.held":
			held[id] = true
		case "lock.released":
			delete(held, id)
		}
	}
	var ret stackage.Stack
	p := guard(func() { ret = root.Reveal() })
	InstallLockWatch()
	if p != "" {
		key := "reveal/panic"
		if strings.Contains(p, "self-deadlock") {
			key = "reveal/self-deadlock"
		}
		return st, violf(key, "Reveal panicked: %s\n  tree %s", p, c.Root.Brief())
	}
	if len(held) > 0 {
		return st, violf("reveal/lock-leaked", "Reveal returned with %d stack lock(s) still held\n  tree %s", len(held), c.Root.Brief())
	}
	if ret != root {
		return st, violf("reveal/root-replaced", "Reveal returned a different instance than its receiver")
	}

	after := &rvInfo{stacks: map[string]rvStack{}}
	nfA := walkReal(root, 0, after)
	rawA := nfA.String()
	normalise(nfA)

	if fmt.Sprint(before.leafSeq) != fmt.Sprint(after.leafSeq) {
		return st, violf("reveal/leaf-sequence", "depth-first leaf sequence changed:\n  before %v\n  after  %v\n  tree %s", before.leafSeq, after.leafSeq, c.Root.Brief())
	}
	if a, b := nfB.String(), nfA.String(); a != b {
		return st, violf("reveal/normal-form", "fully-unwrapped forms differ:\n  before %s\n  after  %s\n  tree %s", a, b, c.Root.Brief())
	}
	if after.depth > before.depth || after.nodes > before.nodes {
		return st, violf("reveal/grew", "depth %d->%d, nodes %d->%d\n  tree %s", before.depth, after.depth, before.nodes, after.nodes, c.Root.Brief())
	}
	var gone []string
	for _, id := range before.order {
		b := before.stacks[id]
		if _, still := after.stacks[id]; still {
			continue
		}
		gone = append(gone, id)
		if b.paren || b.not {
			return st, violf("reveal/removed-paren-or-NOT", "a parenthetical or NOT stack (%s, paren=%v not=%v) disappeared\n  tree %s", id, b.paren, b.not, c.Root.Brief())
		}
		if b.n != 1 || (b.childKind != "stack" && b.childKind != "cond" && b.childKind != "hollow") || b.childParen {
			return st, violf("reveal/removed-ineligible", "a stack that is not a redundant wrapper disappeared (%s: len %d, only child %s, child paren %v)\n  tree %s", id, b.n, b.childKind, b.childParen, c.Root.Brief())
		}
	}
	for _, id := range after.order {
		if _, was := before.stacks[id]; !was {
			return st, violf("reveal/fabricated-stack", "a stack instance appeared that was not in the tree before (%s)\n  tree %s", id, c.Root.Brief())
		}
	}
	sort.Strings(gone)
	if len(gone) > 0 || rawA != rawB {
		st.Class("reveal-changed-something")
	}
	return st, nil
}

func genC20(t *rapid.T, tier Tier) C20Case {
	maxDepth := 6
	budget := 30
	if tier.Thorough {
		budget = 45
	}
	leafN := 0
	var genStack func(depth int) Node
	var genElem func(depth int) Node
	genLeaf := func() Node {
		leafN++
		if rapid.IntRange(0, 14).Draw(t, "hollow?") == 0 {
			// hollow values of the library's own types, stored as plain values (also as a Condition's expression)
			return LeafN(Val{K: rapid.SampledFrom([]string{"zstack", "zcond", "nilsp", "nilcp", "tnil"}).Draw(t, "hollow"), Depth: 1})
		}
		return LeafN(VS("l" + itoa(leafN)))
	}
	genCond := func(depth int) Node {
		budget--
		n := Node{T: "cond", KW: "k" + itoa(leafN), Op: rapid.SampledFrom(opPool).Draw(t, "op"), Paren: rapid.IntRange(0, 4).Draw(t, "cparen") == 0,
			Wrap: rapid.SampledFrom([]int{0, 0, 0, WrapAlias, WrapPtr}).Draw(t, "cwrap")}
		if depth < maxDepth && budget > 1 && rapid.IntRange(0, 2).Draw(t, "cexprstack") == 0 {
			e := genStack(depth + 1)
			n.Expr = &e
		} else if depth < maxDepth && budget > 2 && rapid.IntRange(0, 5).Draw(t, "cexprcond") == 0 {
			// a Condition holding a Condition (holding a stack)
			in := genStack(depth + 2)
			e := Node{T: "cond", KW: "inner", Op: OpEq(), Expr: &in}
			budget--
			n.Expr = &e
		} else {
			e := genLeaf()
			n.Expr = &e
		}
		return n
	}
	genElem = func(depth int) Node {
		r := rapid.IntRange(0, 99).Draw(t, "elem")
		switch {
		case r < 45 && depth < maxDepth && budget > 1:
			return genStack(depth + 1)
		case r < 60:
			return genCond(depth)
		case r < 65:
			return LeafN(VNil())
		}
		return genLeaf()
	}
	genStack = func(depth int) Node {
		budget--
		n := Node{T: "stack", Kind: rapid.SampledFrom([]string{"AND", "OR", "LIST", "AND", "OR", "NOT", "BASIC"}).Draw(t, "kind"),
			Paren:  rapid.IntRange(0, 3).Draw(t, "paren") == 0,
			Mutex:  rapid.IntRange(0, 2).Draw(t, "mutex") == 0,
			NegIdx: rapid.IntRange(0, 3).Draw(t, "negidx") == 0,
			FwdIdx: rapid.IntRange(0, 3).Draw(t, "fwdidx") == 0,
			Amb:    drawAmbient(t, true),
		}
		if depth > 0 {
			n.Wrap = rapid.SampledFrom([]int{0, 0, 0, 0, WrapAlias, WrapAliasS, WrapPtr}).Draw(t, "wrap")
		}
		// bias toward single-child chains
		w := 1
		switch rapid.IntRange(0, 9).Draw(t, "widthclass") {
		case 0:
			w = 0
		case 1, 2, 3, 4, 5:
			w = 1
		case 6, 7:
			w = 2
		default:
			w = rapid.IntRange(3, 4).Draw(t, "width")
		}
		for i := 0; i < w && budget > 0; i++ {
			n.Elems = append(n.Elems, genElem(depth))
		}
		if rapid.IntRange(0, 9).Draw(t, "uncomparable?") == 0 {
			// one or two adjacent leaves of an uncomparable Go type (same type when two)
			leafN++
			u := genUncomparable(t, leafN)
			at := rapid.IntRange(0, len(n.Elems)).Draw(t, "uncat")
			ins := []Node{LeafN(u)}
			if rapid.Bool().Draw(t, "unc-pair") {
				leafN++
				u2 := u
				u2.Elems = append([]Val{}, u.Elems...)
				ins = append(ins, LeafN(u2))
			}
			n.Elems = append(n.Elems[:at:at], append(ins, n.Elems[at:]...)...)
		}
		n.NoNest = rapid.IntRange(0, 5).Draw(t, "nonest-after") == 0
		n.PresPol = rapid.IntRange(0, 4).Draw(t, "prespol") == 0 // how a stack presents itself has no say in what Reveal may unwrap
		// read-only members (set last): Reveal leaves their content alone; whatever it does there it may not panic, deadlock or keep a lock
		n.ReadOnly = rapid.IntRange(0, 5).Draw(t, "readonly") == 0
		if rapid.IntRange(0, 5).Draw(t, "past?") == 0 {
			n.Past = rapid.IntRange(1, 6).Draw(t, "past") // values that were pushed and popped again before Reveal
		}
		return n
	}
	root := genStack(0)
	if len(root.Elems) == 0 {
		root.Elems = append(root.Elems, genElem(0))
	}
	if rapid.IntRange(0, 119).Draw(t, "crowd?") == 0 {
		// a crowd: the root plus 65..140 mutex-enabled members (more locks in one tree than any small fixed pool)
		root.Mutex = true
		k := rapid.IntRange(65, 140).Draw(t, "crowd")
		for i := 0; i < k; i++ {
			leafN += 2
			root.Elems = append(root.Elems, Node{T: "stack", Kind: "OR", Mutex: true, Elems: []Node{LeafN(VS("c" + itoa(leafN))), LeafN(VS("c" + itoa(leafN+1)))}})
		}
	}
	return C20Case{Root: root}
}

func init() {
	Register(Def[C20Case]{
		ID: "C20",
		Rule: "rapid-generated trees (depth<=6, <=30/45 nodes) biased toward single-child chains: every mix of kinds (NOT, BASIC included), parenthetical flags on wrapper and/or child, Conditions holding stacks, empty stacks, nil elements, leaves as only children, alias/pointer wrappings, " +
			"SetMutex on a random third of the nodes, negative/forward index options on a random quarter. Oracle (two walks of the real object through Len/Index/Expression/Kind/IsParen before and after Reveal): identical depth-first leaf/Condition sequence; identical fully-unwrapped normal form; " +
			"depth and node count do not grow; every stack that disappeared was a redundant wrapper (non-parenthetical, non-NOT, exactly one non-parenthetical Stack/Condition child); no stack instance appears; root instance kept; no panic; no self-deadlock and no leaked lock (lock-ownership tracking through the verifPoint hook). " +
			"non-trivial = the tree has an eligible wrapper at depth>=1 and an ineligible single-child wrapper; distinct = distinct tree JSON",
		Gen:         genC20,
		Run:         runC20,
		Floors:      map[string]float64{"reveal-changed-something": 0.2, "mutex-nodes": 0.5, "cond-holding-stack": 0.1, "chain-length-2": 0.05, "read-only-mutex-member": 0.05},
		Assumptions: []string{"an alias and its native conversion are the same node (Reveal re-inserts the converted native value)", "trees are acyclic and no instance is shared between two positions"},
	})
}
