package props

// build.go: serialisable descriptions of values and trees, and the
// deterministic builder that turns a description into real go-stackage
// objects through the public API only.

import (
	"fmt"
	"io"
	"log"
	"math"
	"reflect"
	"strings"

	"pgregory.net/rapid"

	stackage "github.com/JesseCoretta/go-stackage"
)

// ---- alias types, exactly as the README's "Type Aliasing" prescribes --------

// MyStack: alias without any method of its own.
type MyStack stackage.Stack

// MyStackS: alias that wraps String.
type MyStackS stackage.Stack

func (r MyStackS) String() string { return stackage.Stack(r).String() }

// MyCond: alias without methods. MyCondS wraps String.
type MyCond stackage.Condition
type MyCondS stackage.Condition

func (r MyCondS) String() string { return stackage.Condition(r).String() }

// MyStackLoud / MyCondLoud: aliases whose own String method says something else than the value they
// convert to (wrapping methods is the user's business; the package must keep treating the alias as
// the native value it converts to).
type MyStackLoud stackage.Stack

func (r MyStackLoud) String() string { return "<<loud stack>>" }

type MyCondLoud stackage.Condition

func (r MyCondLoud) String() string { return "<<loud cond>>" }

// Stringer leaf type
type strLeaf struct{ S string }

func (s strLeaf) String() string { return s.S }

// intStringer: a named integer type with a String method (in the manner of time.Duration); its zero value is a value like any other.
type intStringer int

func (d intStringer) String() string { return "d" + itoa(int(d)) }

// strStringer: a named STRING type with a String method of its own: the method's text counts, not the underlying string.
type strStringer string

func (s strStringer) String() string { return "attr:" + string(s) }

// plainNamed: a named string type WITHOUT a String method (not a string, not a stringer).
type plainNamed string

// sliceOp: a user-defined operator whose Go type cannot be compared with == (a slice).
type sliceOp []string

func (o sliceOp) String() string {
	if len(o) > 0 {
		return o[0]
	}
	return ""
}
func (o sliceOp) Context() string {
	if len(o) > 1 {
		return o[1]
	}
	return ""
}

// user-defined operator
type userOp struct {
	Text, Ctx string
}

func (u userOp) String() string  { return u.Text }
func (u userOp) Context() string { return u.Ctx }

// structs used as leaves
type PubStruct struct {
	A int
	B string
	C float64
}
type privStruct struct {
	A    int
	priv string
	B    string
}
type embStruct struct {
	PubStruct
	D bool
}
type ptrStruct struct {
	P *int
	S []int
}

// ptrOnlyStruct is a *comparable* struct type holding a pointer: Go's == would compare the address.
type ptrOnlyStruct struct {
	P *int
	N int
}

// ifaceStruct carries a primitive behind an interface-typed field.
type ifaceStruct struct {
	V any
	N int
}

// ---- Val: description of a leaf value ----------------------------------------

// Val describes a Go value. K selects the constructor.
//
//	str int int8 int16 int32 int64 uint uint8 uint16 uint32 uint64 f32 f64
//	c64 c128 bool nil stringer
//	ptr (Elems[0], Depth levels)     slice / array (Elems, element kind = Elems[0].K; ints or strings or ptr-to-int)
//	map (Keys -> Elems, string keys)  imap (I-keys from Keys parsed)  pub / priv / emb / pstruct
type Val struct {
	K     string   `json:"k"`
	S     string   `json:"s,omitempty"`
	I     int64    `json:"i,omitempty"`
	F     float64  `json:"f,omitempty"`
	B     bool     `json:"b,omitempty"`
	Depth int      `json:"depth,omitempty"`
	Elems []Val    `json:"elems,omitempty"`
	Keys  []string `json:"keys,omitempty"`
}

func VS(s string) Val     { return Val{K: "str", S: s} }
func VI(i int64) Val      { return Val{K: "int", I: i} }
func VNil() Val           { return Val{K: "nil"} }
func (v Val) IsNil() bool { return v.K == "nil" }

func ptrTo(x any, depth int) any {
	// returns pointer of the given depth to x for the supported primitive types
	switch tv := x.(type) {
	case int:
		p1 := &tv
		if depth == 1 {
			return p1
		}
		p2 := &p1
		if depth == 2 {
			return p2
		}
		p3 := &p2
		return p3
	case string:
		p1 := &tv
		if depth == 1 {
			return p1
		}
		p2 := &p1
		if depth == 2 {
			return p2
		}
		p3 := &p2
		return p3
	case float64:
		p1 := &tv
		if depth == 1 {
			return p1
		}
		p2 := &p1
		if depth == 2 {
			return p2
		}
		p3 := &p2
		return p3
	case bool:
		p1 := &tv
		if depth == 1 {
			return p1
		}
		p2 := &p1
		if depth == 2 {
			return p2
		}
		p3 := &p2
		return p3
	}
	panic(fmt.Sprintf("ptrTo: unsupported %T", x))
}

// Value constructs a fresh Go value from the description (fresh allocations
// for every pointer/slice/map so that two calls are independent instances).
func (v Val) Value() any {
	switch v.K {
	case "nil", "":
		return nil
	case "str":
		return v.S
	case "stringer":
		return strLeaf{v.S}
	case "int":
		return int(v.I)
	case "int8":
		return int8(v.I)
	case "int16":
		return int16(v.I)
	case "int32":
		return int32(v.I)
	case "int64":
		return int64(v.I)
	case "uint":
		return uint(v.I)
	case "uint8":
		return uint8(v.I)
	case "uint16":
		return uint16(v.I)
	case "uint32":
		return uint32(v.I)
	case "uint64":
		return uint64(v.I)
	case "f32":
		return float32(v.F)
	case "f64":
		return v.F
	case "c64":
		return complex(float32(v.F), float32(v.I))
	case "c128":
		return complex(v.F, float64(v.I))
	case "bool":
		return v.B
	case "ptr":
		d := v.Depth
		if d < 1 {
			d = 1
		}
		if d > 3 {
			// *...*T with d levels, built by reflection (a leaf may be a pointer to a primitive at ANY depth)
			rv := reflect.ValueOf(v.Elems[0].Value())
			for i := 0; i < d; i++ {
				p := reflect.New(rv.Type())
				p.Elem().Set(rv)
				rv = p
			}
			return rv.Interface()
		}
		return ptrTo(v.Elems[0].Value(), d)
	case "zstack": // a zero-valued Stack stored as a plain value
		return stackage.Stack{}
	case "zcond":
		return stackage.Condition{}
	case "nilsp": // nil pointers to the library's own types: they satisfy its interfaces but have nothing behind them
		return (*stackage.Stack)(nil)
	case "nilcp":
		return (*stackage.Condition)(nil)
	case "tnil": // a typed nil pointer: an interface value that is NOT nil (an element like any other)
		switch v.Depth {
		case 2:
			return (**int)(nil)
		case 3:
			return (*strLeaf)(nil)
		}
		return (*int)(nil)
	case "slice", "array":
		return v.sliceValue()
	case "map":
		ek := "int"
		if len(v.Elems) > 0 {
			ek = v.Elems[0].K
		}
		switch ek {
		case "str":
			m := map[string]string{}
			for i, k := range v.Keys {
				m[k] = v.Elems[i].S
			}
			return m
		case "ptr":
			m := map[string]*int{}
			for i, k := range v.Keys {
				x := int(v.Elems[i].Elems[0].I)
				m[k] = &x
			}
			return m
		case "int":
			m := map[string]int{}
			for i, k := range v.Keys {
				m[k] = int(v.Elems[i].I)
			}
			return m
		default:
			et := reflect.TypeOf(v.Elems[0].Value())
			m := reflect.MakeMap(reflect.MapOf(reflect.TypeOf(""), et))
			for i, k := range v.Keys {
				m.SetMapIndex(reflect.ValueOf(k), reflect.ValueOf(v.Elems[i].Value()))
			}
			return m.Interface()
		}
	case "imap":
		m := map[int]string{}
		for i, k := range v.Keys {
			var n int
			fmt.Sscanf(k, "%d", &n)
			m[n] = v.Elems[i].S
		}
		return m
	case "pub":
		return PubStruct{A: int(v.I), B: v.S, C: v.F}
	case "priv":
		return privStruct{A: int(v.I), priv: "hidden", B: v.S}
	case "emb":
		return embStruct{PubStruct: PubStruct{A: int(v.I), B: v.S, C: v.F}, D: v.B}
	case "ponly":
		x := int(v.I)
		return ptrOnlyStruct{P: &x, N: int(v.F)}
	case "iface":
		return ifaceStruct{V: v.S, N: int(v.I)}
	case "pstruct":
		x := int(v.I)
		s := make([]int, 0, len(v.Elems))
		for _, e := range v.Elems {
			s = append(s, int(e.I))
		}
		return ptrStruct{P: &x, S: s}
	}
	panic("Val.Value: unknown kind " + v.K)
}

func (v Val) sliceValue() any {
	n := len(v.Elems)
	if n == 0 {
		if v.K == "array" {
			return [0]int{}
		}
		return []int{}
	}
	// typed container built by reflection from the element description: []T / [n]T for every
	// primitive kind T the descriptions know (ints of every width incl. uint8 = byte, floats,
	// complex, bool, string) and pointers to them; cap == len (capacity is part of the documented
	// slice comparison). An array is handed over BY VALUE (rv.Interface() copies it).
	first := v.Elems[0].Value()
	et := reflect.TypeOf(first)
	if et == nil {
		et = reflect.TypeOf((*any)(nil)).Elem()
	}
	var rv reflect.Value
	if v.K == "array" {
		rv = reflect.New(reflect.ArrayOf(n, et)).Elem()
	} else {
		rv = reflect.MakeSlice(reflect.SliceOf(et), n, n)
	}
	for i, e := range v.Elems {
		x := e.Value()
		if x == nil {
			continue
		}
		rv.Index(i).Set(reflect.ValueOf(x))
	}
	return rv.Interface()
}

// Text is the text a (text/number/bool) leaf must contribute to String(),
// computed through fmt (an independent path from the package's strconv use).
func (v Val) Text() string {
	switch v.K {
	case "str", "stringer":
		return v.S
	case "bool":
		return fmt.Sprint(v.B)
	case "f32":
		return fmt.Sprint(float32(v.F))
	case "f64":
		return fmt.Sprint(v.F)
	case "c64", "c128":
		return fmt.Sprint(v.Value())
	case "nil":
		return ""
	default:
		return fmt.Sprint(v.Value())
	}
}

func (v Val) String() string {
	switch v.K {
	case "nil":
		return "nil"
	case "str":
		return fmt.Sprintf("%q", v.S)
	case "ptr":
		return strings.Repeat("*", v.Depth) + v.Elems[0].String()
	case "slice", "array", "map", "imap", "pstruct":
		return fmt.Sprintf("%s%v", v.K, v.Value())
	default:
		return fmt.Sprintf("%s(%v)", v.K, v.Value())
	}
}

// isFinite is used by generators that must avoid NaN/Inf.
func isFinite(f float64) bool { return !math.IsNaN(f) && !math.IsInf(f, 0) }

// ---- operators ----------------------------------------------------------------

// OpDesc describes an Operator argument.
//
//	K: "cmp" (ComparisonOperator(I)), "user" (Text, Ctx), "nil"
type OpDesc struct {
	K    string `json:"k"`
	I    int    `json:"i,omitempty"`
	Text string `json:"text,omitempty"`
	Ctx  string `json:"ctx,omitempty"`
}

func (o OpDesc) Value() stackage.Operator {
	switch o.K {
	case "cmp":
		return stackage.ComparisonOperator(o.I)
	case "user":
		return userOp{o.Text, o.Ctx}
	case "uslice": // a user operator whose Go type is not comparable
		return sliceOp{o.Text, o.Ctx}
	}
	return nil
}

// sameOp: operator equality for the harness (never ==: an operator's Go type may be uncomparable).
func sameOp(a, b stackage.Operator) bool {
	if a == nil || b == nil {
		return a == nil && b == nil
	}
	return reflect.TypeOf(a) == reflect.TypeOf(b) && a.String() == b.String() && a.Context() == b.Context()
}

// Accepted: per the C06 statement — non-nil with non-empty text and context.
func (o OpDesc) Accepted() bool {
	switch o.K {
	case "cmp":
		return true // any ComparisonOperator has non-empty text ("<invalid_operator>" for bogus ones) and context
	case "user", "uslice":
		return o.Text != "" && o.Ctx != ""
	}
	return false
}

func (o OpDesc) TextOf() string {
	if v := o.Value(); v != nil {
		return v.String()
	}
	return ""
}

func OpEq() OpDesc { return OpDesc{K: "cmp", I: 1} }

// ---- Node: description of a tree ------------------------------------------------

const (
	WrapNative  = 0
	WrapAlias   = 1 // alias value, no String method
	WrapAliasS  = 2 // alias value with wrapped String
	WrapPtr     = 3 // pointer to alias (with String)
	WrapPtrNS   = 4 // pointer to alias without String
	WrapLoud    = 5 // alias whose own String says something else
	WrapPtrLoud = 6 // pointer to such an alias
)

type Node struct {
	T string `json:"t"` // leaf | stack | cond

	Leaf *Val `json:"leaf,omitempty"`

	// stack
	Kind     string     `json:"kind,omitempty"` // AND OR NOT LIST BASIC
	Cap      int        `json:"cap,omitempty"`
	FIFO     bool       `json:"fifo,omitempty"`
	Paren    bool       `json:"paren,omitempty"`
	Fold     bool       `json:"fold,omitempty"`
	NoPad    bool       `json:"nopad,omitempty"`
	LeadOnce bool       `json:"lonce,omitempty"`
	NegIdx   bool       `json:"negidx,omitempty"`
	FwdIdx   bool       `json:"fwdidx,omitempty"`
	NoNest   bool       `json:"nonest,omitempty"`
	Mutex    bool       `json:"mutex,omitempty"`
	ReadOnly bool       `json:"readonly,omitempty"` // set after everything else
	Symbol   string     `json:"symbol,omitempty"`
	Delim    string     `json:"delim,omitempty"`
	Encap    [][]string `json:"encap,omitempty"`
	Wrap     int        `json:"wrap,omitempty"`
	OptForm  int        `json:"optform,omitempty"`  // how the Boolean options are brought to their state: 0 Set(true); 1 toggle; 2 Set(false)+toggle; 3 Set(true)+toggle+toggle; 4 Set(opposite)+toggle
	UmFail   bool       `json:"umfail,omitempty"`   // an unmarshal closure that FAILS (returns an error) on this node
	PresPol  bool       `json:"prespol,omitempty"`  // a presentation closure (non-BASIC stacks, Conditions): changes String() only
	ValidRej bool       `json:"validrej,omitempty"` // a validity closure that REJECTS the node (stacks and Conditions), installed after assembly
	EqPol    int        `json:"eqpol,omitempty"`    // equality closure on this node: 1 accepts everything, 2 rejects everything (stacks and Conditions)
	Amb      int        `json:"amb,omitempty"`      // ambient, semantically neutral settings (AmbXxx bits), applied after the elements are in
	Past     int        `json:"past,omitempty"`     // an earlier state the node went through before it reached the described one: stacks (LIFO): (Past+1)/2 values pushed and popped again, before (odd) or after (even) the elements went in; Conditions: 1/2/3 = the expression was a Stack / a text / a Condition before the described one was assigned
	Elems    []Node     `json:"elems,omitempty"`

	// cond (also uses Paren, NoPad, NoNest, Encap, Wrap)
	KW   string `json:"kw,omitempty"`
	Op   OpDesc `json:"op,omitempty"`
	Expr *Node  `json:"expr,omitempty"`
}

func LeafN(v Val) Node { return Node{T: "leaf", Leaf: &v} }

func (n Node) IsStack() bool { return n.T == "stack" }
func (n Node) IsCond() bool  { return n.T == "cond" }
func (n Node) IsLeaf() bool  { return n.T == "leaf" }

func newStackOfKind(kind string, capacity int) stackage.Stack {
	var c []int
	if capacity > 0 {
		c = []int{capacity}
	}
	switch kind {
	case "AND":
		return stackage.And(c...)
	case "OR":
		return stackage.Or(c...)
	case "NOT":
		return stackage.Not(c...)
	case "LIST":
		return stackage.List(c...)
	}
	return stackage.Basic(c...)
}

func wrapStack(s stackage.Stack, wrap int) any {
	switch wrap {
	case WrapAlias:
		return MyStack(s)
	case WrapAliasS:
		return MyStackS(s)
	case WrapPtr:
		a := MyStackS(s)
		return &a
	case WrapPtrNS:
		a := MyStack(s)
		return &a
	case WrapLoud:
		return MyStackLoud(s)
	case WrapPtrLoud:
		a := MyStackLoud(s)
		return &a
	}
	return s
}

func wrapCond(c stackage.Condition, wrap int) any {
	switch wrap {
	case WrapAlias:
		return MyCond(c)
	case WrapAliasS:
		return MyCondS(c)
	case WrapPtr:
		a := MyCondS(c)
		return &a
	case WrapPtrNS:
		a := MyCond(c)
		return &a
	case WrapLoud:
		return MyCondLoud(c)
	case WrapPtrLoud:
		a := MyCondLoud(c)
		return &a
	}
	return c
}

// unwrapStack / unwrapCond: the harness's OWN view of which of its values are Stacks / Conditions
// (a Go type switch over exactly the wrap forms Build produces). Oracles use these rather than the
// library's ConvertStack / ConvertCondition wherever the conversion itself is part of what is checked.
func unwrapStack(v any) (stackage.Stack, bool) {
	switch tv := v.(type) {
	case stackage.Stack:
		return tv, tv.IsInit()
	case *stackage.Stack:
		if tv != nil {
			return *tv, tv.IsInit()
		}
	case MyStack:
		return stackage.Stack(tv), stackage.Stack(tv).IsInit()
	case MyStackS:
		return stackage.Stack(tv), stackage.Stack(tv).IsInit()
	case MyStackLoud:
		return stackage.Stack(tv), stackage.Stack(tv).IsInit()
	case *MyStack:
		if tv != nil {
			return stackage.Stack(*tv), stackage.Stack(*tv).IsInit()
		}
	case *MyStackS:
		if tv != nil {
			return stackage.Stack(*tv), stackage.Stack(*tv).IsInit()
		}
	case *MyStackLoud:
		if tv != nil {
			return stackage.Stack(*tv), stackage.Stack(*tv).IsInit()
		}
	}
	return stackage.Stack{}, false
}

func unwrapCond(v any) (stackage.Condition, bool) {
	switch tv := v.(type) {
	case stackage.Condition:
		return tv, tv.IsInit()
	case *stackage.Condition:
		if tv != nil {
			return *tv, tv.IsInit()
		}
	case MyCond:
		return stackage.Condition(tv), stackage.Condition(tv).IsInit()
	case MyCondS:
		return stackage.Condition(tv), stackage.Condition(tv).IsInit()
	case MyCondLoud:
		return stackage.Condition(tv), stackage.Condition(tv).IsInit()
	case *MyCond:
		if tv != nil {
			return stackage.Condition(*tv), stackage.Condition(*tv).IsInit()
		}
	case *MyCondS:
		if tv != nil {
			return stackage.Condition(*tv), stackage.Condition(*tv).IsInit()
		}
	case *MyCondLoud:
		if tv != nil {
			return stackage.Condition(*tv), stackage.Condition(*tv).IsInit()
		}
	}
	return stackage.Condition{}, false
}

// BuildOpts tunes Build.
type BuildOpts struct {
	AllNative bool // ignore Wrap
}

// Build constructs the real object. Stacks and Conditions come back wrapped
// according to Wrap; use BuildStack for the native root.
func Build(n Node) any { return BuildWith(n, BuildOpts{}) }

func BuildWith(n Node, o BuildOpts) any {
	switch n.T {
	case "leaf":
		return n.Leaf.Value()
	case "stack":
		s := buildStack(n, o)
		if o.AllNative {
			return s
		}
		return wrapStack(s, n.Wrap)
	case "cond":
		c := buildCond(n, o)
		if o.AllNative {
			return c
		}
		return wrapCond(c, n.Wrap)
	}
	panic("Build: bad node type " + n.T)
}

func BuildStack(n Node) stackage.Stack { return buildStack(n, BuildOpts{}) }

// Ambient settings: none of them is named by any property as influencing the
// behaviour under test (identifier, category, auxiliary map, ordering closure, an
// accepting validity closure, an accepting push closure installed after the
// content is in, a discarding logger at every log level, the mutex). Every check
// must therefore give the same verdict with and without them.
const (
	AmbID = 1 << iota
	AmbCategory
	AmbAux
	AmbLess
	AmbValidOK
	AmbPushOK
	AmbLogAll
	AmbMutex
	AmbErr // an error recorded earlier (SetErr): state left behind by an earlier call
	AmbAll = 1<<iota - 1
)

var errUnmarshalFails = fmt.Errorf("the node's unmarshal closure fails")

var errValidityRejects = fmt.Errorf("the node's validity closure rejects")

var errAmbient = fmt.Errorf("ambient error recorded earlier")

var errEqPolicyRejects = fmt.Errorf("the node's equality closure rejects")

func eqPolicyOf(k int) stackage.EqualityPolicy {
	switch k {
	case 1:
		return func(any, any) error { return nil }
	case 2:
		return func(any, any) error { return errEqPolicyRejects }
	}
	return nil
}

var discardLogger = log.New(io.Discard, "", 0)

func ApplyAmbient(s stackage.Stack, amb int) {
	if amb&AmbMutex != 0 {
		s.SetMutex()
	}
	if amb&AmbID != 0 {
		s.SetID("ambient-id")
	}
	if amb&AmbCategory != 0 {
		s.SetCategory("ambient-category")
	}
	if amb&AmbAux != 0 {
		s.SetAuxiliary(stackage.Auxiliary{"k": 1})
	}
	if amb&AmbLess != 0 {
		s.SetLessFunc(func(i, j int) bool { return i < j })
	}
	if amb&AmbValidOK != 0 {
		s.SetValidityPolicy(func(...any) error { return nil })
	}
	if amb&AmbPushOK != 0 {
		s.SetPushPolicy(func(...any) error { return nil })
	}
	if amb&AmbErr != 0 {
		s.SetErr(errAmbient)
	}
	if amb&AmbLogAll != 0 {
		s.SetLogger(discardLogger)
		s.SetLogLevel(stackage.AllLogLevels)
	}
}

func drawAmbient(t *rapid.T, allowPush bool) int {
	if rapid.IntRange(0, 1).Draw(t, "ambient?") == 0 {
		return 0
	}
	a := rapid.IntRange(1, AmbAll).Draw(t, "ambient")
	if !allowPush {
		a &^= AmbPushOK
	}
	return a
}

// setTri brings a Boolean option (off by default) to `want` through one of several call histories
// that the documentation declares equivalent: true sets, false clears, no argument inverts.
func setTri[T any](set func(...bool) T, want bool, form int) {
	switch form {
	case 1:
		if want {
			set() // invert the default
		}
	case 2:
		set(false)
		if want {
			set()
		}
	case 3:
		if want {
			set(true)
			set()
			set()
		} else {
			set(true)
			set()
		}
	case 4:
		set(!want)
		set()
	default:
		if want {
			set(true)
		}
	}
}

func buildStack(n Node, o BuildOpts) stackage.Stack {
	s := newStackOfKind(n.Kind, n.Cap)
	if n.FIFO {
		s.SetFIFO(true)
	}
	setTri(s.SetParen, n.Paren, n.OptForm)
	setTri(s.SetFold, n.Fold, n.OptForm)
	setTri(s.SetNoPadding, n.NoPad, n.OptForm)
	setTri(s.SetLeadOnce, n.LeadOnce, n.OptForm)
	setTri(s.SetNegativeIndices, n.NegIdx, n.OptForm)
	setTri(s.SetForwardIndices, n.FwdIdx, n.OptForm)
	if n.Symbol != "" {
		s.SetSymbol(n.Symbol)
	}
	if n.Delim != "" {
		s.SetDelimiter(n.Delim)
	}
	for _, e := range n.Encap {
		s.SetEncap(append([]string{}, e...))
	}
	if n.Mutex {
		s.SetMutex()
	}
	// push one at a time so that no batch semantics interfere
	// Past (LIFO stacks): (Past+1)/2 values are pushed and popped again - before the elements go in when Past is
	// odd (their slots are re-used by the elements), after them when it is even (their slots lie beyond the content)
	past := func() {
		pushed := 0
		for i := 0; i < (n.Past+1)/2 && !s.IsFull(); i++ {
			s.Push("past" + itoa(i))
			pushed++
		}
		for ; pushed > 0; pushed-- {
			s.Pop()
		}
	}
	if n.Past > 0 && n.Past%2 == 1 && !n.FIFO {
		past()
	}
	for _, e := range n.Elems {
		s.Push(BuildWith(e, o))
	}
	if n.Past > 0 && n.Past%2 == 0 && !n.FIFO {
		past()
	}
	if n.NoNest {
		s.SetNoNesting(true)
	}
	if n.Amb != 0 {
		ApplyAmbient(s, n.Amb)
	}
	if f := eqPolicyOf(n.EqPol); f != nil {
		s.SetEqualityPolicy(f)
	}
	if n.ValidRej {
		s.SetValidityPolicy(func(...any) error { return errValidityRejects })
	}
	if n.PresPol && n.Kind != "BASIC" {
		s.SetPresentationPolicy(func(...any) string { return "<presented>" })
	}
	if n.UmFail {
		s.SetUnmarshaler(func(...any) ([]any, error) { return []any{"partial"}, errUnmarshalFails })
	}
	if n.ReadOnly {
		s.SetReadOnly(true)
	}
	return s
}

func buildCond(n Node, o BuildOpts) stackage.Condition {
	var c stackage.Condition
	c.Init()
	c.SetKeyword(n.KW)
	if op := n.Op.Value(); op != nil {
		c.SetOperator(op)
	}
	if n.Expr != nil {
		v := BuildWith(*n.Expr, o)
		if str, isStr := v.(string); n.Past > 0 && v != nil && !(isStr && str == "") {
			// the Condition held something else before (only when the described expression is one that is accepted)
			switch n.Past {
			case 1:
				c.SetExpression(stackage.And().Push("old0", "old1", "old2"))
			case 2:
				c.SetExpression("old text")
			default:
				c.SetExpression(stackage.Cond("oldkw", stackage.Ne, stackage.Or().Push("old0", "old1")))
			}
		}
		c.SetExpression(v)
	}
	setTri(c.SetParen, n.Paren, n.OptForm)
	setTri(c.SetNoPadding, n.NoPad, n.OptForm)
	for _, e := range n.Encap {
		c.SetEncap(append([]string{}, e...))
	}
	if n.NoNest {
		c.SetNoNesting(true)
	}
	if f := eqPolicyOf(n.EqPol); f != nil {
		c.SetEqualityPolicy(f)
	}
	if n.ValidRej {
		c.SetValidityPolicy(func(...any) error { return errValidityRejects })
	}
	if n.PresPol {
		c.SetPresentationPolicy(func(...any) string { return "<presented>" })
	}
	if n.UmFail {
		c.SetUnmarshaler(func(...any) ([]any, error) { return []any{"partial"}, errUnmarshalFails })
	}
	if n.ReadOnly {
		c.SetReadOnly(true)
	}
	return c
}

// Depth / size helpers over descriptions.
func (n Node) Depth() int {
	d := 0
	switch n.T {
	case "stack":
		for _, e := range n.Elems {
			if x := e.Depth(); x > d {
				d = x
			}
		}
		return d + 1
	case "cond":
		if n.Expr != nil {
			return n.Expr.Depth() + 1
		}
		return 1
	}
	return 0
}

func (n Node) Walk(f func(n Node, depth int)) { n.walk(f, 0) }
func (n Node) walk(f func(n Node, depth int), d int) {
	f(n, d)
	for _, e := range n.Elems {
		e.walk(f, d+1)
	}
	if n.Expr != nil {
		n.Expr.walk(f, d+1)
	}
}

func (n Node) Count() int {
	c := 0
	n.Walk(func(Node, int) { c++ })
	return c
}

// Brief renders a description compactly for samples and messages.
func (n Node) Brief() string {
	switch n.T {
	case "leaf":
		return n.Leaf.String()
	case "cond":
		e := "nil"
		if n.Expr != nil {
			e = n.Expr.Brief()
		}
		return fmt.Sprintf("Cond(%q %s %s)", n.KW, n.Op.TextOf(), e)
	}
	var parts []string
	for _, e := range n.Elems {
		parts = append(parts, e.Brief())
	}
	var opts []string
	if n.Paren {
		opts = append(opts, "paren")
	}
	if n.Fold {
		opts = append(opts, "fold")
	}
	if n.NoPad {
		opts = append(opts, "nopad")
	}
	if n.LeadOnce {
		opts = append(opts, "lonce")
	}
	if n.Symbol != "" {
		opts = append(opts, "sym="+n.Symbol)
	}
	if n.Delim != "" {
		opts = append(opts, "delim="+n.Delim)
	}
	if len(n.Encap) > 0 {
		opts = append(opts, fmt.Sprintf("encap=%v", n.Encap))
	}
	if n.Cap > 0 {
		opts = append(opts, fmt.Sprintf("cap=%d", n.Cap))
	}
	if n.Wrap != 0 {
		opts = append(opts, fmt.Sprintf("wrap=%d", n.Wrap))
	}
	o := ""
	if len(opts) > 0 {
		o = "{" + strings.Join(opts, ",") + "}"
	}
	return n.Kind + o + "[" + strings.Join(parts, ", ") + "]"
}
