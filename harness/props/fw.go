package props

// fw.go: the small framework every property check is written against.
//
//	case (a plain, JSON-serialisable value)
//	  -> Run(case) (Stats, error)      pure: no clock, no RNG, no map order
//
// Three drivers feed Run: rapid (generated cases), bounded-exhaustive
// enumeration (Enum) and the replay of a saved JSON case (no rapid involved).

import (
	"encoding/json"
	"fmt"
	"hash/fnv"
	"log"
	"os"
	"path/filepath"
	"runtime/debug"
	"sort"
	"strconv"
	"strings"
	"sync"
	"testing"
	"time"

	stackage "github.com/JesseCoretta/go-stackage"
	"pgregory.net/rapid"
)

// Violation is the error type returned by Run functions. Key identifies the
// finding class (see DESIGN.md "Finding keys"); it is what known_findings.json
// is matched against.
type Violation struct {
	Key string
	Msg string
}

func (v *Violation) Error() string { return "[" + v.Key + "] " + v.Msg }

func violf(key, format string, a ...any) *Violation {
	return &Violation{Key: key, Msg: fmt.Sprintf(format, a...)}
}

// Stats is what a Run reports about the case it executed.
type Stats struct {
	NonTrivial bool
	Classes    []string // class labels hit by this case
	Sig        string   // canonical text for distinctness; "" => JSON of the case
	Sub        int      // number of sub-evaluations (e.g. steps, paths, calls); informational
}

func (s *Stats) Class(c string) {
	for _, x := range s.Classes {
		if x == c {
			return
		}
	}
	s.Classes = append(s.Classes, c)
}

type Tier struct {
	Name     string // quick | thorough
	Thorough bool
}

// Def defines one property check.
type Def[C any] struct {
	ID   string
	Rule string
	// Gen draws one case. All randomness must come from t.
	Gen func(t *rapid.T, tier Tier) C
	// Run decides the property on one case.
	Run func(c C) (Stats, error)
	// Enum (optional) enumerates a finite sub-space completely. shard/nshards
	// lets the enumeration be split; implementations may ignore it and use the
	// provided filter through yieldIdx.
	Enum func(tier Tier, yield func(C))
	// EnumNote describes the enumerated sub-space (goes into the evidence).
	EnumNote string
	// Floors: minimal fraction of rapid cases that must hit the class, else
	// the run is reported as a generator-health failure (exit 2).
	Floors map[string]float64
	// Assumptions for the evidence file.
	Assumptions []string
}

type runner interface {
	id() string
	runAll(t *testing.T)
	replay(raw []byte) error
	fuzz(f *testing.F)
}

var registry = map[string]runner{}

// ambientNote is appended to the rule of every property whose generators draw the
// ambient settings / wide runs (DESIGN.md 2.6), so that the evidence says so.
var ambientNote = map[string]string{}

func init() {
	amb := ". Ambient settings that no property names as relevant (mutex, identifier, category, auxiliary map, less closure, accepting validity/push closures, discarding logger at every level) are drawn on a random half of the generated stacks/receivers"
	wide := "; one generated tree in twelve carries an extra run of 12..40 leaves"
	lw := "; single-goroutine lock watch: a lock requested while still held is reported as a violation instead of hanging."
	for _, id := range []string{"C02", "C04", "C05", "C07", "C09", "C12", "C17"} {
		ambientNote[id] = amb + wide + lw
	}
	ambientNote["C11"] = amb + wide + "."
	for _, id := range []string{"C01", "C03", "C06", "C08", "C13", "C16", "C19", "C20"} {
		ambientNote[id] = amb + lw
	}
	for _, id := range []string{"C14", "C15", "C18"} {
		ambientNote[id] = ". Single-goroutine lock watch: a lock requested while still held is reported as a violation instead of hanging."
	}
}

func Register[C any](d Def[C]) {
	registry[d.ID] = &defRunner[C]{d: d}
}

type defRunner[C any] struct {
	d Def[C]
}

func (r *defRunner[C]) id() string { return r.d.ID }

// ---- known findings ---------------------------------------------------------

type finding struct {
	Property string `json:"property"`
	Key      string `json:"key"`
	What     string `json:"what"`
	Status   string `json:"status"` // known | fixed
	Commit   string `json:"commit,omitempty"`
	Replay   string `json:"replay,omitempty"`
}

func verifRoot() string {
	if r := os.Getenv("VERIF_ROOT"); r != "" {
		return r
	}
	return "/verif"
}

func loadAllFindings(id string) (out []finding) {
	b, err := os.ReadFile(filepath.Join(verifRoot(), "known_findings.json"))
	if err != nil {
		return
	}
	var doc struct {
		Findings []finding `json:"findings"`
	}
	if json.Unmarshal(b, &doc) != nil {
		return
	}
	for _, f := range doc.Findings {
		if f.Property == id {
			out = append(out, f)
		}
	}
	return
}

func loadKnown(id string) map[string]finding {
	out := map[string]finding{}
	for _, f := range loadAllFindings(id) {
		if f.Status == "known" {
			out[f.Key] = f
		}
	}
	return out
}

// ---- partial evidence -------------------------------------------------------

type partial struct {
	Property       string         `json:"property"`
	Shard          int            `json:"shard"`
	Evaluations    int            `json:"evaluations"`
	EnumEvals      int            `json:"enum_evaluations"`
	RapidEvals     int            `json:"rapid_evaluations"`
	ReplayEvals    int            `json:"replay_evaluations"`
	SubEvals       int            `json:"sub_evaluations"`
	NonTrivial     int            `json:"nontrivial"`
	Hashes         []string       `json:"hashes"`
	Classes        map[string]int `json:"classes"`
	RapidClasses   map[string]int `json:"rapid_classes"`
	Samples        []any          `json:"samples"`
	ExcludedKnown  map[string]int `json:"excluded_known"`
	Violations     int            `json:"violations"`
	ReplayFile     string         `json:"replay_file,omitempty"`
	FirstError     string         `json:"first_error,omitempty"`
	Exhaustive     bool           `json:"exhaustive"`
	DistinctCapped bool           `json:"distinct_capped,omitempty"`
	EnumNote       string         `json:"enum_note,omitempty"`
	Rule           string         `json:"rule"`
	Assumptions    []string       `json:"assumptions,omitempty"`
	FloorFailures  []string       `json:"floor_failures,omitempty"`
	WallS          float64        `json:"wall_s"`
	Extra          map[string]any `json:"extra,omitempty"`
}

type collector struct {
	mu         sync.Mutex
	p          partial
	hashes     map[uint64]struct{}
	failed     bool
	known      map[string]finding
	inEnum     bool
	firstKey   string
	srcCount   map[string]int
	srcSamples map[string]int
}

// Extra lets a property attach additional measured facts to its evidence.
var extraMu sync.Mutex
var extraFacts = map[string]any{}

func SetExtra(k string, v any) {
	extraMu.Lock()
	extraFacts[k] = v
	extraMu.Unlock()
}

// maxDistinctPerShard bounds the per-process set of case hashes (≈ 16 bytes each plus map overhead).
const maxDistinctPerShard = 600000

func hash64(s string) uint64 {
	h := fnv.New64a()
	h.Write([]byte(s))
	return h.Sum64()
}

func envInt(name string, def int) int {
	if v := os.Getenv(name); v != "" {
		if n, err := strconv.Atoi(v); err == nil {
			return n
		}
	}
	return def
}

func currentTier() Tier {
	n := os.Getenv("VERIF_TIER")
	if n != "thorough" {
		n = "quick"
	}
	return Tier{Name: n, Thorough: n == "thorough"}
}

// trackCurrent (VERIF_TRACK_CURRENT, set by the driver for the concurrency properties): the case
// about to run is saved first, so that a Go *fatal error* raised by the code under test (unlock of an
// unlocked mutex, all goroutines asleep, concurrent map access: not recoverable, the process dies)
// still leaves a replayable case behind.
func trackCurrent[C any](id string, c C) {
	out := os.Getenv("VERIF_OUT")
	if os.Getenv("VERIF_TRACK_CURRENT") == "" || out == "" {
		return
	}
	raw, _ := json.Marshal(c)
	b, _ := json.Marshal(replayFile{Property: id, Key: "fatal-error", Error: "the process died while running this case", Case: raw, Warm: warm.done})
	os.WriteFile(filepath.Join(out, fmt.Sprintf("current.%d.json", envInt("VERIF_SHARD", 0))), b, 0o644)
}

// lockWatch is the single-goroutine lock discipline monitor. Every property
// function except the concurrent ones (C10, C11, which own the hook) runs on one
// goroutine, so a request for a stack's lock while that lock is held can never be
// served: the call under test would hang. The monitor turns that hang into a
// panic at the point of the request (before sync.Mutex.Lock is entered), which the
// property function reports like any other panic; if the property function
// swallowed it, safeRun reports it itself.
var lockWatch struct {
	on      bool
	held    map[uintptr]bool
	tripped string
}

const selfDeadlockMsg = "self-deadlock: the lock of stack %#x is requested while it is still held (a call returned without releasing it, or a locked method re-entered a locking method)"

func lockWatchHook(ev string, id uintptr) {} // (kept for InstallLockWatch's bookkeeping; the work is done by lockWatchHookMtx)

// lockWatchHookMtx tracks the lock by the identity of the sync.Mutex (what a goroutine really blocks on): two
// instances that were handed the same mutex are one lock.
func lockWatchHookMtx(ev string, id, mtx uintptr) {
	key := mtx
	if key == 0 {
		key = id
	}
	switch ev {
	case "lock.want":
		if lockWatch.held[key] {
			lockWatch.tripped = fmt.Sprintf(selfDeadlockMsg, id)
			panic(lockWatch.tripped)
		}
	case "lock.held":
		lockWatch.held[key] = true
	case "lock.released":
		delete(lockWatch.held, key)
	}
}

// InstallLockWatch (re-)installs the monitor; property functions that borrow
// stackage.VerifHook for a section call it when they are done.
func InstallLockWatch() {
	stackage.VerifHook = nil
	if lockWatch.on {
		stackage.VerifHookMtx = lockWatchHookMtx
	} else {
		stackage.VerifHookMtx = nil
	}
}

// ---- package-level state ------------------------------------------------------------
//
// go-stackage has four package-level settings (default logger and default log level for new
// Stacks and for new Conditions). They are reset at the top of every case (state must not
// leak from one case into the next: C08/C17 call the package-level setters with synthesised
// arguments), and for one case in four - chosen by a hash of the case, so that a replay
// reproduces it - they are set to a live logger at every log level: no property names the
// package defaults as relevant, so every verdict must be the same with them.

type sinkWriter struct{}

func (sinkWriter) Write(p []byte) (int, error) { return len(p), nil }

var liveLogger = log.New(sinkWriter{}, "ambient ", 0) // NOT io.Discard: the library recognises that one

var curProp string

func resetPackageState() {
	stackage.SetDefaultStackLogger("off")
	stackage.SetDefaultConditionLogger("off")
	stackage.SetDefaultStackLogLevel(stackage.NoLogLevels)
	stackage.SetDefaultConditionLogLevel(stackage.NoLogLevels)
}

func globalAmbientFor(c any) bool {
	if curProp == "C10" || curProp == "C11" {
		return false // concurrent properties: keep the race stage's reports to the code under test
	}
	raw, err := json.Marshal(c)
	if err != nil {
		return false
	}
	h := fnv.New32a()
	h.Write(raw)
	return h.Sum32()%4 == 0
}

func applyGlobalAmbient() {
	stackage.SetDefaultStackLogger(liveLogger)
	stackage.SetDefaultConditionLogger(liveLogger)
	if curProp != "C18" { // C18's model covers the log-level getters of fresh instances
		stackage.SetDefaultStackLogLevel(stackage.AllLogLevels)
		stackage.SetDefaultConditionLogLevel(stackage.AllLogLevels)
	}
}

// ---- package warm-up -------------------------------------------------------------------
//
// Anything the library remembers at package level across calls (a cache keyed by type, a
// memoised verdict) is state left behind by earlier calls. A user's process may, at any point
// before the calls a property talks about, have handed the library zero values of its own
// types: a zero Stack alias, a zero Condition alias, nil pointers to them, a zero value of a
// type with a String method. None of that may change any later answer. So after the first
// warmAfter cases of a process (which ran "cold") the harness does exactly that once, through
// every entry point that inspects value types; every later case runs "warm". The flag is
// stored in the replay file and honoured by the replay tier.
var warm struct {
	done  bool
	cases int
}

const warmAfterDefault = 400

func maybeWarmUp() {
	warm.cases++
	if warm.done || curProp == "C11" { // C11 sends the same traffic itself, per case and per family, between a query and its repetition
		return
	}
	after := envInt("VERIF_WARM_AFTER", warmAfterDefault)
	if warm.cases > after {
		warmUpPackage()
	}
}

func warmUpPackage() {
	warm.done = true
	foreignZeroTraffic("alias", "stringer", "operator", "other")
}

// foreignZeroTraffic hands zero values of the harness's own types to the library through every
// entry point that inspects value types, on structures of its own (nothing the caller holds is
// touched). Used as the process warm-up and, by C11, between a query and its repetition.
func foreignZeroTraffic(families ...string) {
	prev := stackage.VerifHook
	prevM := stackage.VerifHookMtx
	stackage.VerifHook, stackage.VerifHookMtx = nil, nil
	defer func() { stackage.VerifHook, stackage.VerifHookMtx = prev, prevM }()
	guard(func() {
		var zs MyStack
		var zss MyStackS
		var zl MyStackLoud
		var zc MyCond
		var zcs MyCondS
		var zcl MyCondLoud
		var np *MyStack
		var npc *MyCond
		var ns *stackage.Stack
		var zeros []any
		for _, f := range families {
			switch f {
			case "alias":
				zeros = append(zeros, zs, &zs, zss, &zss, zl, zc, &zc, zcs, zcl, np, npc, ns, stackage.Stack{}, stackage.Condition{})
			case "stringer":
				zeros = append(zeros, strLeaf{}, &strLeaf{}, (*strLeaf)(nil), intStringer(0))
			case "operator":
				zeros = append(zeros, userOp{}, sliceOp(nil), stackage.ComparisonOperator(0))
			default:
				zeros = append(zeros, PubStruct{}, privStruct{}, embStruct{}, ptrStruct{}, ptrOnlyStruct{}, ifaceStruct{}, [0]int{}, []int(nil), map[string]int(nil), (*int)(nil), (**int)(nil))
			}
		}
		for _, kind := range stackKinds {
			mk := func() stackage.Stack { return newStackOfKind(kind, 0) }
			s := mk()
			s.Push(zeros...)
			_ = s.IsNesting()
			_ = s.String()
			_, _ = s.Unmarshal()
			_ = s.IsEqual(mk().Push(zeros...))
			for i := 0; i+1 < s.Len(); i++ {
				_ = s.Less(i, i+1)
			}
			_, _ = s.Traverse(0, 0)
			s.Defrag()
			s.Reveal()
			n := mk()
			n.SetNoNesting(true)
			n.Push(zeros...)
			_ = n.IsNesting()
			mk().Transfer(zs)
			mk().Push("x").Transfer(&zs)
		}
		for _, z := range zeros {
			stackage.ConvertStack(z)
			stackage.ConvertCondition(z)
			c := stackage.Cond(z, stackage.Eq, z)
			c.SetKeyword(z)
			c.SetExpression(z)
			if op, ok := z.(stackage.Operator); ok {
				c.SetOperator(op)
			}
			_ = c.String()
			_ = c.Valid()
			_ = c.IsNesting()
			_ = c.IsEqual(stackage.Cond(z, stackage.Eq, z))
			var nn stackage.Condition
			nn.Init()
			nn.SetNoNesting(true)
			nn.SetExpression(z)
			var r stackage.Stack
			_ = r.Marshal(z)
			_ = r.Marshal("AND", z)
		}
	})
	resetPackageState()
}

func safeRun[C any](run func(C) (Stats, error), c C) (st Stats, err error) {
	maybeWarmUp()
	resetPackageState()
	if globalAmbientFor(c) {
		applyGlobalAmbient()
		defer func() { st.Class("package-defaults:live-logger"); resetPackageState() }()
	}
	defer func() {
		if r := recover(); r != nil {
			err = &Violation{Key: "harness/panic", Msg: fmt.Sprintf("panic escaped the property function: %v\n%s", r, debug.Stack())}
		}
		if lockWatch.on {
			stackage.VerifHook = nil
			stackage.VerifHookMtx = nil
			if lockWatch.tripped != "" && err == nil {
				err = &Violation{Key: "self-deadlock", Msg: lockWatch.tripped}
			}
		}
	}()
	if lockWatch.on {
		lockWatch.held = map[uintptr]bool{}
		lockWatch.tripped = ""
		stackage.VerifHook = nil
		stackage.VerifHookMtx = lockWatchHookMtx
	}
	return run(c)
}

func (r *defRunner[C]) replayPath() string {
	dir := os.Getenv("VERIF_REPLAY_DIR")
	if dir == "" {
		dir = filepath.Join(verifRoot(), "replays")
	}
	os.MkdirAll(dir, 0o755)
	return filepath.Join(dir, fmt.Sprintf("%s-%s-%s-s%d.json", r.d.ID, currentTier().Name, os.Getenv("VERIF_SEED_TAG"), envInt("VERIF_SHARD", 0)))
}

type replayFile struct {
	Property string          `json:"property"`
	Key      string          `json:"key"`
	Error    string          `json:"error"`
	Warm     bool            `json:"warm,omitempty"` // the package warm-up (warmUpPackage) had run before this case
	Case     json.RawMessage `json:"case"`
}

func (r *defRunner[C]) record(col *collector, c C, st Stats, err error) (fatal string) {
	col.mu.Lock()
	defer col.mu.Unlock()

	if err != nil {
		v, ok := err.(*Violation)
		if !ok {
			v = &Violation{Key: "other", Msg: err.Error()}
		}
		if _, isKnown := col.known[v.Key]; isKnown {
			// a listed known finding: counted, excluded from the verdict, and the
			// case is otherwise accounted for like any other (the search goes on)
			if !col.failed {
				col.p.ExcludedKnown[v.Key]++
			}
			err = nil
		}
	}
	if err != nil {
		v, ok := err.(*Violation)
		if !ok {
			v = &Violation{Key: "other", Msg: err.Error()}
		}
		if col.failed && v.Key != col.firstKey {
			// shrinking must stay on the finding it started with
			return ""
		}
		raw, _ := json.Marshal(c)
		rf := replayFile{Property: r.d.ID, Key: v.Key, Error: v.Msg, Case: raw, Warm: warm.done}
		b, _ := json.MarshalIndent(rf, "", " ")
		path := r.replayPath()
		os.WriteFile(path, b, 0o644)
		if !col.failed {
			col.failed = true
			col.firstKey = v.Key
			col.p.Violations++
		}
		col.p.FirstError = v.Error() // the last failing execution is the shrunk one
		col.p.ReplayFile = path
		// the message handed to rapid must be a pure function of the case (rapid
		// requires identical error strings when it re-runs a candidate): the key only.
		return "violation " + v.Key
	}
	if col.failed {
		return "" // shrinking phase: not counted
	}
	col.p.Evaluations++
	col.p.SubEvals += st.Sub
	if col.inEnum {
		col.p.EnumEvals++
	} else {
		col.p.RapidEvals++
	}
	for _, cl := range st.Classes {
		col.p.Classes[cl]++
		if !col.inEnum {
			col.p.RapidClasses[cl]++
		}
	}
	if st.NonTrivial {
		col.p.NonTrivial++
		sig := st.Sig
		if sig == "" {
			raw, _ := json.Marshal(c)
			sig = string(raw)
		}
		h := hash64(sig)
		if _, dup := col.hashes[h]; !dup && len(col.hashes) >= maxDistinctPerShard {
			// memory cap: beyond it distinct cases are no longer recorded, so the reported
			// distinct_nontrivial is a lower bound (flagged in the evidence)
			col.p.DistinctCapped = true
		} else if !dup {
			col.hashes[h] = struct{}{}
			// keep a few samples: the first three distinct non-trivial cases,
			// then one at every power of four
			src, n := "rapid", col.p.RapidEvals
			if col.inEnum {
				src, n = "enumeration", col.p.EnumEvals
			}
			col.srcCount[src]++
			k := col.srcCount[src]
			if (k <= 2 || (k&(k-1) == 0 && bitsEven(k))) && col.srcSamples[src] < 5 {
				raw, _ := json.Marshal(c)
				var anyc any
				json.Unmarshal(raw, &anyc)
				col.p.Samples = append(col.p.Samples, map[string]any{"source": src, "n": n, "classes": st.Classes, "case": anyc})
				col.srcSamples[src]++
			}
		}
	}
	return ""
}

func bitsEven(n int) bool {
	k := 0
	for n > 1 {
		n >>= 1
		k++
	}
	return k%2 == 0
}

// ownsHook: the concurrent properties drive stackage.VerifHook themselves.
func (r *defRunner[C]) armLockWatch() {
	lockWatch.on = r.d.ID != "C10" && r.d.ID != "C11"
	curProp = r.d.ID
}

func (r *defRunner[C]) runAll(t *testing.T) {
	r.armLockWatch()
	tier := currentTier()
	shard := envInt("VERIF_SHARD", 0)
	nshards := envInt("VERIF_NSHARDS", 1)
	start := time.Now()
	col := &collector{hashes: map[uint64]struct{}{}, known: loadKnown(r.d.ID), srcCount: map[string]int{}, srcSamples: map[string]int{}}
	col.p = partial{Property: r.d.ID, Shard: shard, Classes: map[string]int{}, RapidClasses: map[string]int{},
		ExcludedKnown: map[string]int{}, Rule: r.d.Rule + ambientNote[r.d.ID], Assumptions: r.d.Assumptions, EnumNote: r.d.EnumNote}

	defer func() {
		col.mu.Lock()
		defer col.mu.Unlock()
		for h := range col.hashes {
			col.p.Hashes = append(col.p.Hashes, strconv.FormatUint(h, 16))
		}
		sort.Strings(col.p.Hashes)
		col.p.WallS = time.Since(start).Seconds()
		extraMu.Lock()
		if len(extraFacts) > 0 {
			col.p.Extra = map[string]any{}
			for k, v := range extraFacts {
				col.p.Extra[k] = v
			}
		}
		extraMu.Unlock()
		// generator health floors (rapid part only)
		if !col.failed && col.p.RapidEvals >= 200 && os.Getenv("VERIF_RACE") == "" {
			for cl, fl := range r.d.Floors {
				got := float64(col.p.RapidClasses[cl]) / float64(col.p.RapidEvals)
				if got < fl {
					col.p.FloorFailures = append(col.p.FloorFailures, fmt.Sprintf("%s: %.4f < %.4f", cl, got, fl))
				}
			}
			sort.Strings(col.p.FloorFailures)
		}
		if out := os.Getenv("VERIF_OUT"); out != "" {
			os.MkdirAll(out, 0o755)
			b, _ := json.Marshal(col.p)
			os.WriteFile(filepath.Join(out, fmt.Sprintf("%s.%d.part.json", r.d.ID, shard)), b, 0o644)
		}
		var keys []string
		for k := range col.p.ExcludedKnown {
			keys = append(keys, k)
		}
		sort.Strings(keys)
		for _, k := range keys {
			fmt.Printf("KNOWN-FINDING-HIT: property=%s key=%s count=%d\n", r.d.ID, k, col.p.ExcludedKnown[k])
		}
		fmt.Printf("VERIF-SUMMARY: property=%s shard=%d evaluations=%d enum=%d rapid=%d nontrivial=%d distinct=%d violations=%d\n",
			r.d.ID, shard, col.p.Evaluations, col.p.EnumEvals, col.p.RapidEvals, col.p.NonTrivial, len(col.hashes), col.p.Violations)
		for _, ff := range col.p.FloorFailures {
			fmt.Printf("VERIF-FLOOR: property=%s %s\n", r.d.ID, ff)
		}
	}()

	// 0. replay tier: saved cases of fixed findings must pass; they run on every
	// invocation (shard 0 only) and bypass rapid.
	if shard == 0 {
		for _, f := range loadAllFindings(r.d.ID) {
			if f.Replay == "" || f.Status != "fixed" {
				continue
			}
			path := filepath.Join(verifRoot(), f.Replay)
			raw, rerr := os.ReadFile(path)
			if rerr != nil {
				t.Errorf("cannot read replay %s: %v", path, rerr)
				continue
			}
			col.p.Evaluations++
			col.p.ReplayEvals++
			if out := os.Getenv("VERIF_OUT"); out != "" && os.Getenv("VERIF_TRACK_CURRENT") != "" {
				os.WriteFile(filepath.Join(out, fmt.Sprintf("current.%d.json", shard)), raw, 0o644)
			}
			if err := r.replay(raw); err != nil {
				col.failed = true
				col.p.Violations++
				col.p.FirstError = "regression of fixed finding " + f.Key + ": " + err.Error()
				col.p.ReplayFile = path
				t.Errorf("%s", col.p.FirstError)
				return
			}
		}
	}

	// 1. bounded-exhaustive part (split over shards by case index)
	if r.d.Enum != nil && os.Getenv("VERIF_NO_ENUM") == "" {
		col.inEnum = true
		idx := 0
		stop := false
		r.d.Enum(tier, func(c C) {
			if stop {
				return
			}
			idx++
			if nshards > 1 && idx%nshards != shard {
				return
			}
			trackCurrent(r.d.ID, c)
			st, err := safeRun(r.d.Run, c)
			if msg := r.record(col, c, st, err); msg != "" {
				stop = true
				t.Errorf("enumerated case %d violates %s: %s", idx, r.d.ID, msg)
			}
		})
		col.inEnum = false
		col.p.Exhaustive = !stop
		if stop {
			return
		}
	}

	// 2. generated part
	if r.d.Gen != nil && os.Getenv("VERIF_NO_RAPID") == "" {
		var tb rapid.TB = t
		if os.Getenv("VERIF_RACE") != "" {
			// under the race detector testing.T.Failed() turns true as soon as ANY race was reported (the listed
			// read-site finding is reported within the first few cases) and rapid then refuses to go on: the
			// campaign would end there. The wrapper only counts failures this harness raised itself; the
			// detector's reports are collected from its log and keyed by the driver.
			tb = &raceBlindTB{T: t}
		}
		rapid.Check(tb, func(rt *rapid.T) {
			c := r.d.Gen(rt, tier)
			trackCurrent(r.d.ID, c)
			st, err := safeRun(r.d.Run, c)
			if msg := r.record(col, c, st, err); msg != "" {
				rt.Fatalf("%s", msg)
			}
		})
	}
}

// raceBlindTB: a testing.T whose Failed() reports only what was failed through it.
type raceBlindTB struct {
	*testing.T
	failed bool
}

func (r *raceBlindTB) Failed() bool                 { return r.failed }
func (r *raceBlindTB) Fail()                        { r.failed = true; r.T.Fail() }
func (r *raceBlindTB) FailNow()                     { r.failed = true; r.T.FailNow() }
func (r *raceBlindTB) Error(args ...any)            { r.failed = true; r.T.Error(args...) }
func (r *raceBlindTB) Errorf(f string, args ...any) { r.failed = true; r.T.Errorf(f, args...) }
func (r *raceBlindTB) Fatal(args ...any)            { r.failed = true; r.T.Fatal(args...) }
func (r *raceBlindTB) Fatalf(f string, args ...any) { r.failed = true; r.T.Fatalf(f, args...) }

func (r *defRunner[C]) replay(raw []byte) error {
	r.armLockWatch()
	var rf replayFile
	if err := json.Unmarshal(raw, &rf); err != nil {
		return fmt.Errorf("bad replay file: %v", err)
	}
	var c C
	body := rf.Case
	if len(body) == 0 {
		body = raw
	}
	dec := json.NewDecoder(strings.NewReader(string(body)))
	if err := dec.Decode(&c); err != nil {
		return fmt.Errorf("bad replay case: %v", err)
	}
	if rf.Warm {
		warmUpPackage()
	}
	_, err := safeRun(r.d.Run, c)
	return err
}

// fuzz drives the same generators and the same oracle from a coverage-guided
// byte string (rapid.MakeFuzz is the data-provider layer: bytes -> rapid bit
// stream -> structured case). Known findings are excluded inside the target so
// that a campaign does not end on a listed defect.
func (r *defRunner[C]) fuzz(f *testing.F) {
	r.armLockWatch()
	tier := Tier{Name: "thorough", Thorough: true}
	known := loadKnown(r.d.ID)
	f.Add([]byte{})
	f.Add([]byte{0, 0, 0, 0, 0, 0, 0, 0, 0, 0, 0, 0, 0, 0, 0, 0})
	f.Add([]byte("\xff\xff\xff\xff\xff\xff\xff\xff\xff\xff\xff\xff\xff\xff\xff\xff\xff\xff\xff\xff\xff\xff\xff\xff"))
	seed := uint64(88172645463325252)
	for i := 0; i < 12; i++ {
		b := make([]byte, 64+i*32)
		for j := range b {
			seed ^= seed << 13
			seed ^= seed >> 7
			seed ^= seed << 17
			b[j] = byte(seed)
		}
		f.Add(b)
	}
	f.Fuzz(rapid.MakeFuzz(func(rt *rapid.T) {
		c := r.d.Gen(rt, tier)
		_, err := safeRun(r.d.Run, c)
		if err != nil {
			if v, ok := err.(*Violation); ok {
				if _, isKnown := known[v.Key]; isKnown {
					return
				}
			}
			raw, _ := json.Marshal(c)
			rt.Fatalf("%s violated: %v\ncase: %s", r.d.ID, err, raw)
		}
	}))
}
