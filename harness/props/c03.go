package props

// C03 — a Stack created with capacity k never holds more than k elements.

import (
	"fmt"

	stackage "github.com/JesseCoretta/go-stackage"
	"pgregory.net/rapid"
)

type C03Op struct {
	Op string `json:"op"` // push fill insert pop remove reset transfer marshal replace reverse
	N  int    `json:"n,omitempty"`
	A  int    `json:"a,omitempty"`
}

type C03Case struct {
	Kind   string  `json:"kind"`
	FIFO   bool    `json:"fifo"`
	CapArg int     `json:"caparg"` // >0 capacity; 0 => And(0); -1 => And() ; < -1 => And(negative)
	Amb    int     `json:"amb,omitempty"`
	NoNest bool    `json:"nonest,omitempty"` // SetNoNesting(true): only non-Stack values are offered, so capacity must be enforced exactly as without it
	Policy bool    `json:"policy,omitempty"` // an accept-everything push policy is installed (capacity must be enforced all the same)
	Ops    []C03Op `json:"ops"`
	// a validity closure that REJECTS (1: always; 2: while the stack holds fewer than two values): what the owner thinks
	// of the content has no say in the capacity, its getters or its enforcement
	ValidRej int `json:"validrej,omitempty"`
}

func newStackCapArg(kind string, capArg int) stackage.Stack {
	var c []int
	if capArg != -1 {
		c = []int{capArg}
		if capArg < -1 {
			c = []int{capArg + 1} // -2 -> -1, -3 -> -2 ...
		}
	}
	switch kind {
	case "AND":
		return stackage.And(c...)
	case "OR":
		return stackage.Or(c...)
	case "NOT":
		return stackage.Not(c...)
	case "LIST":
		return stackage.List(c...)
	}
	return stackage.Basic(c...)
}

func checkCapInvariants(s stackage.Stack, m *ListModel, where string) *Violation {
	k := m.Cap
	if k > 0 {
		if s.Len() > k {
			return violf(where+"/len>cap", "%s: Len()=%d exceeds capacity %d", where, s.Len(), k)
		}
		if s.Cap() != k {
			return violf(where+"/cap", "%s: Cap()=%d, want %d", where, s.Cap(), k)
		}
		if s.Avail() != k-s.Len() {
			return violf(where+"/avail", "%s: Avail()=%d, want %d (cap %d, len %d)", where, s.Avail(), k-s.Len(), k, s.Len())
		}
		if s.IsFull() != (s.Len() == k) {
			return violf(where+"/isfull", "%s: IsFull()=%v with len %d cap %d", where, s.IsFull(), s.Len(), k)
		}
		if s.CapReached() != s.IsFull() {
			return violf(where+"/capreached", "%s: CapReached()=%v but IsFull()=%v", where, s.CapReached(), s.IsFull())
		}
	} else {
		if s.Cap() != -1 || s.Avail() != -1 || s.IsFull() {
			return violf(where+"/nocap", "%s: no capacity but Cap()=%d Avail()=%d IsFull()=%v", where, s.Cap(), s.Avail(), s.IsFull())
		}
	}
	return nil
}

func readContent(s stackage.Stack) []any {
	out := make([]any, 0, s.Len())
	for i := 0; i < s.Len(); i++ {
		v, _ := s.Index(i)
		out = append(out, v)
	}
	return out
}

func runC03(c C03Case) (st Stats, err error) {
	var s stackage.Stack
	m := &ListModel{FIFO: c.FIFO}
	if c.CapArg > 0 {
		m.Cap = c.CapArg
	}
	if p := guard(func() {
		s = newStackCapArg(c.Kind, c.CapArg)
		if c.FIFO {
			s.SetFIFO(true)
		}
		if c.Policy {
			s.SetPushPolicy(func(...any) error { return nil })
		}
		ApplyAmbient(s, c.Amb&^AmbPushOK)
		if c.NoNest {
			s.SetNoNesting(true)
		}
		switch c.ValidRej {
		case 1:
			s.SetValidityPolicy(func(...any) error { return errValidityRejects })
		case 2:
			s.SetValidityPolicy(func(x ...any) error {
				if len(x) > 0 {
					if h, ok := x[0].(stackage.Stack); ok && h.Len() >= 2 {
						return nil
					}
				}
				return errValidityRejects
			})
		}
	}); p != "" {
		return st, violf("setup/panic", "setup panicked: %s", p)
	}
	if c.ValidRej != 0 {
		st.Class("rejecting-validity-closure")
	}
	if c.NoNest {
		st.Class("no-nesting-receiver")
	}
	if c.Policy {
		st.Class("with-push-policy")
	}
	if v := checkCapInvariants(s, m, "init"); v != nil {
		return st, v
	}
	tag := 0
	next := func() any {
		tag++
		v := tagValueP(tag)
		if _, isStack := unwrapStack(v); isStack && c.NoNest {
			return tagValue(tag) // (a no-nesting receiver is only offered non-Stack values here)
		}
		return v
	}
	shrunk := false
	k := m.Cap

	for i, op := range c.Ops {
		var v *Violation
		n := m.Len()
		avail := -1
		if k > 0 {
			avail = k - n
		}
		growth := false
		st.Sub++
		p := guard(func() {
			switch op.Op {
			case "push", "fill":
				cnt := op.N
				if op.Op == "fill" && k > 0 {
					// bring the stack to Avail()==op.N%2, possibly offering a surplus of op.A
					target := k - (op.N % 2)
					cnt = target - n
					if cnt < 0 {
						cnt = 0
					}
					cnt += op.A % 3
				}
				vals := make([]any, cnt)
				for j := range vals {
					vals[j] = next()
				}
				stored := m.Push(vals...)
				s.Push(vals...)
				growth = cnt > 0
				if stored < cnt && stored > 0 {
					st.Class("partial-fit-batch")
				}
				if stored == 0 && cnt > 0 {
					st.Class("push-on-full")
				}
				if shrunk && m.FIFO && growth && avail >= 0 && avail <= 1 {
					st.Class("fifo-pop-then-push-at-boundary")
				}
			case "insert":
				pos := posMod(op.A, n+3) - 1
				val := next()
				want := m.Insert(val, pos)
				got := s.Insert(val, pos)
				growth = true
				if got != want {
					v = violf("insert/result", "Insert(%v,%d) with len %d cap %d returned %v, model %v", val, pos, n, k, got, want)
				}
				if !want {
					st.Class("insert-at-full")
				}
			case "pop":
				want, existed := m.Pop()
				got, ok := s.Pop()
				if existed {
					shrunk = true
				}
				if got != want || ok != existed {
					v = violf("pop/result", "Pop returned (%v,%v), model (%v,%v)", got, ok, want, existed)
				}
			case "remove":
				if n == 0 {
					return
				}
				pos := posMod(op.A, n)
				want := m.Remove(pos)
				got, ok := s.Remove(pos)
				shrunk = true
				if got != want || !ok {
					v = violf("remove/result", "Remove(%d) returned (%v,%v), model %v", pos, got, ok, want)
				}
			case "reset":
				if n > 0 {
					shrunk = true
					st.Class("reset")
				}
				m.Reset()
				s.Reset()
			case "replace":
				if n == 0 {
					return
				}
				pos := posMod(op.A, n)
				val := next()
				m.Replace(val, pos)
				if !s.Replace(val, pos) {
					v = violf("replace/result", "Replace at existing position %d failed", pos)
				}
			case "selftransfer":
				var arg any = s
				switch op.A % 3 {
				case 1:
					arg = MyStack(s)
				case 2:
					h := s
					arg = &h
				}
				before := append([]any{}, m.Elems...)
				growth = n > 0
				ok := s.Transfer(arg)
				after := readContent(s)
				switch {
				case k > 0 && len(after) > k:
					v = violf("selftransfer/len>cap", "Transfer of the stack into itself (len %d, cap %d) gave Len()=%d", n, k, len(after))
				case ok && len(after) != 2*n:
					v = violf("selftransfer/true", "Transfer into itself returned true with Len %d (was %d)", len(after), n)
				case !ok && len(after) != n:
					v = violf("selftransfer/false-but-changed", "Transfer into itself returned false and changed Len from %d to %d", n, len(after))
				}
				if v == nil {
					for j := range after {
						if after[j] != before[j%max(n, 1)] {
							v = violf("selftransfer/content", "Transfer into itself gave %v from %v", after, before)
							break
						}
					}
					m.Elems = after
				}
				st.Class("self-transfer")
			case "rophase":
				// while read-only nothing grows, and the capacity bookkeeping keeps telling the truth
				s.SetReadOnly(true)
				if vv := checkCapInvariants(s, m, "read-only"); vv != nil {
					v = vv
				}
				s.Push(next(), next())
				s.Insert(next(), 0)
				if vv := checkCapInvariants(s, m, "read-only/after-refused-growth"); vv != nil && v == nil {
					v = vv
				}
				s.SetReadOnly(false)
				st.Class("read-only-phase")
			case "reverse":
				m.Reverse()
				s.Reverse()
			case "transfer":
				// a source of op.N elements transferred into s; the exact outcome is C15's
				// business: here only "never beyond capacity, nothing fabricated".
				src := stackage.Basic()
				var vals []any
				for j := 0; j < op.N; j++ {
					x := next()
					vals = append(vals, x)
					src.Push(x)
				}
				growth = op.N > 0
				before := append([]any{}, m.Elems...)
				src.Transfer(s)
				after := readContent(s)
				if k > 0 && len(after) > k {
					v = violf("transfer/len>cap", "Transfer of %d elements into len %d cap %d gave Len()=%d", op.N, n, k, len(after))
					return
				}
				// after must be before + a prefix of vals
				okShape := len(after) >= len(before) && len(after) <= len(before)+len(vals)
				for j := 0; okShape && j < len(after); j++ {
					if j < len(before) {
						okShape = after[j] == before[j]
					} else {
						okShape = after[j] == vals[j-len(before)]
					}
				}
				if !okShape {
					v = violf("transfer/content", "Transfer of %v into %v gave %v", vals, before, after)
					return
				}
				m.Elems = after
				if avail >= 0 && avail <= op.N {
					st.Class("transfer-at-boundary")
				}
			case "marshal":
				// Marshal into an initialised receiver adds at most one element, none when full
				var env []any
				if op.A%2 == 0 && !c.NoNest { // (a decoded Stack is not offered to a no-nesting receiver: C13's business)
					env = []any{"AND", "x" + itoa(op.A), op.N}
				} else {
					env = []any{"CONDITION", "kw", stackage.Eq, "v" + itoa(op.N)}
				}
				growth = true
				wasFull := m.Full()
				merr := s.Marshal(env...)
				after := readContent(s)
				switch {
				case wasFull && len(after) != n:
					v = violf("marshal/full", "Marshal into a full stack changed Len from %d to %d", n, len(after))
				case len(after) == n:
					if !wasFull {
						v = violf("marshal/none", "Marshal(%v) into a non-full initialised stack added nothing (err=%v)", env, merr)
					}
				case len(after) == n+1:
					m.Elems = append(m.Elems, after[n])
					if _, isS := unwrapStack(after[n]); !isS {
						if _, isC := unwrapCond(after[n]); !isC {
							v = violf("marshal/element", "Marshal-into added %T, not a Stack or Condition", after[n])
						}
					}
				default:
					v = violf("marshal/len", "Marshal-into changed Len from %d to %d", n, len(after))
				}
				if wasFull {
					st.Class("marshal-at-full")
				}
			}
		})
		if p != "" {
			return st, violf(op.Op+"/panic", "step %d %s panicked: %s", i, op.Op, p)
		}
		if v != nil {
			v.Msg = fmt.Sprintf("step %d (%+v): %s", i, op, v.Msg)
			return st, v
		}
		if v := checkCapInvariants(s, m, op.Op); v != nil {
			v.Msg = fmt.Sprintf("after step %d (%+v): %s", i, op, v.Msg)
			return st, v
		}
		if v := compareContent(s, m, op.Op); v != nil {
			v.Msg = fmt.Sprintf("after step %d (%+v): %s", i, op, v.Msg)
			return st, v
		}
		if growth && shrunk && avail >= 0 && avail <= 1 {
			st.NonTrivial = true
			st.Class("growth-at-boundary-after-shrink")
		}
	}
	if k <= 0 {
		st.Class("no-capacity")
		// for the capacity-less variants non-trivial = at least 8 elements were held at some point
		if tag >= 8 {
			st.NonTrivial = true
		}
	}
	return st, nil
}

func genC03(t *rapid.T, tier Tier) C03Case {
	maxK, maxOps := 6, 50
	if tier.Thorough {
		maxK, maxOps = 12, 80
	}
	c := C03Case{
		Kind: rapid.SampledFrom(stackKinds).Draw(t, "kind"),
		FIFO: rapid.Bool().Draw(t, "fifo"),
	}
	if rapid.IntRange(0, 9).Draw(t, "nocap") == 0 {
		c.CapArg = rapid.SampledFrom([]int{-1, 0, -2, -5}).Draw(t, "nocapform")
	} else {
		c.CapArg = rapid.IntRange(1, maxK).Draw(t, "cap")
		if rapid.IntRange(0, 9).Draw(t, "bigcap?") == 0 {
			c.CapArg = rapid.IntRange(15, 70).Draw(t, "bigcap") // past the allocator's growth steps
			if rapid.IntRange(0, 4).Draw(t, "hugecap?") == 0 {
				c.CapArg = rapid.IntRange(250, 520).Draw(t, "hugecap")
			}
		}
	}
	boundaryCap := false
	if c.CapArg > 0 && rapid.IntRange(0, 19).Draw(t, "boundarycap?") == 0 {
		// capacities around the powers of two where fixed-size thinking breaks (one byte, 4096, two bytes ...):
		// the bookkeeping must say k, and the k-th value must still be stored
		c.CapArg = rapid.SampledFrom([]int{255, 256, 257, 1023, 1024, 4095, 4096, 4097, 5000, 65535, 65536, 65537, 1 << 20}).Draw(t, "boundarycap")
		boundaryCap = true
	}
	c.Policy = rapid.IntRange(0, 3).Draw(t, "policy?") == 0
	if rapid.IntRange(0, 4).Draw(t, "validrej?") == 0 {
		c.ValidRej = rapid.IntRange(1, 2).Draw(t, "validrej")
	}
	c.Amb = drawAmbient(t, false)
	c.NoNest = rapid.IntRange(0, 3).Draw(t, "nonest") == 0
	ops := []string{"push", "push", "fill", "fill", "insert", "insert", "pop", "pop", "remove", "reset", "transfer", "marshal", "replace", "reverse", "rophase", "selftransfer"}
	n := rapid.IntRange(1, maxOps).Draw(t, "nops")
	k := c.CapArg
	if k < 1 {
		k = 4
	}
	if boundaryCap {
		// one fill to the brim (for the sizes that can be filled in reasonable time), then a few small steps
		if k <= 5000 {
			c.Ops = append(c.Ops, C03Op{Op: "fill", N: 0, A: 2})
		}
		n = rapid.IntRange(1, 4).Draw(t, "nops-boundary")
		ops = []string{"push", "insert", "pop", "marshal", "transfer"}
		k = 3
	}
	for i := 0; i < n; i++ {
		o := C03Op{Op: rapid.SampledFrom(ops).Draw(t, "op")}
		switch o.Op {
		case "push":
			o.N = rapid.IntRange(0, k+3).Draw(t, "n")
		case "fill":
			o.N = rapid.IntRange(0, 1).Draw(t, "n")
			o.A = rapid.IntRange(0, 2).Draw(t, "surplus")
		case "insert", "remove", "replace":
			o.A = rapid.IntRange(0, 30).Draw(t, "a")
		case "selftransfer":
			o.A = rapid.IntRange(0, 2).Draw(t, "selfform")
		case "transfer":
			o.N = rapid.IntRange(0, k+2).Draw(t, "n")
		case "marshal":
			o.N = rapid.IntRange(0, 9).Draw(t, "n")
			o.A = rapid.IntRange(0, 9).Draw(t, "a")
		}
		c.Ops = append(c.Ops, o)
	}
	return c
}

func init() {
	Register(Def[C03Case]{
		ID: "C03",
		Rule: "rapid-generated histories (1..50/80 ops) mixing growth (push batch, fill-to-boundary with surplus, insert, transfer-into, marshal-into) and shrinkage (pop, remove, reset) " +
			"for capacity k in 1..6 (thorough 1..12) and the capacity-less constructor forms, x kind x LIFO/FIFO; after every step Len<=k, Cap()==k, Avail()==k-Len, IsFull()==(Len==k), content == list model (earliest-offered values kept). " +
			"non-trivial = a growth step executed with Avail() in {0,1} after at least one shrink step (capacity-less variants: >=8 values offered); distinct = distinct case JSON",
		Gen: genC03,
		Run: runC03,
		Floors: map[string]float64{"partial-fit-batch": 0.05, "insert-at-full": 0.05, "transfer-at-boundary": 0.03,
			"growth-at-boundary-after-shrink": 0.2, "marshal-at-full": 0.02, "no-capacity": 0.03, "with-push-policy": 0.1, "no-nesting-receiver": 0.1, "read-only-phase": 0.2},
		Assumptions: []string{"Transfer-into is only required to stay within capacity and to append a prefix of the source (its all-or-nothing result is C15)"},
	})
}
