package props

// C11 — queries never modify anything and may run concurrently.

import (
	"fmt"
	"os"
	"reflect"
	"sort"
	"strings"
	"sync"
	"time"

	stackage "github.com/JesseCoretta/go-stackage"
	"pgregory.net/rapid"
)

type C11Case struct {
	Root     Node        `json:"root"`
	Rich     bool        `json:"rich"`
	RO       bool        `json:"ro"`
	Parallel bool        `json:"parallel"`
	Programs [][]C17Call `json:"programs"` // sequential: Programs[0]; parallel: one program per goroutine
}

var c11NamedQueries = map[string]bool{"String": true, "Index": true, "Front": true, "Back": true, "Traverse": true, "Len": true, "Cap": true, "Avail": true,
	"Kind": true, "Valid": true, "IsEqual": true, "Unmarshal": true, "Less": true}

var c11MutatorsOrExposers = map[string]bool{"Push": true, "Pop": true, "Insert": true, "Remove": true, "Replace": true, "Swap": true, "Reverse": true, "Reset": true,
	"Free": true, "Defrag": true, "Reveal": true, "Transfer": true, "Marshal": true, "Init": true, "Paren": true, "Fold": true, "NegativeIndices": true,
	"ForwardIndices": true, "Encap": true, "LeadOnce": true, "NoPadding": true, "NoNesting": true, "ReadOnly": true, "Symbol": true, "Mutex": true,
	"Auxiliary": true, "Logger": true}

// classifyQuery: "query" (asserted), "mutator" (declared), "unclassified" (reported, not asserted).
func classifyQuery(m methodRef) string {
	switch {
	case strings.HasPrefix(m.Name, "Set") || strings.HasPrefix(m.Name, "Unset") || c11MutatorsOrExposers[m.Name]:
		return "mutator"
	case c11NamedQueries[m.Name] || strings.HasPrefix(m.Name, "Is") || strings.HasPrefix(m.Name, "Can"):
		return "query"
	case m.Type.NumIn() == 1 && strings.HasPrefix(m.Owner, "*") == false:
		return "query" // niladic getter not on the mutator/exposer list
	}
	return "unclassified"
}

func queriesOf(ms []methodRef) (q []methodRef, unclassified []string) {
	for _, m := range ms {
		switch classifyQuery(m) {
		case "query":
			q = append(q, m)
		case "unclassified":
			unclassified = append(unclassified, m.String())
		}
	}
	return
}

// resultRepr renders call results so that two answers can be compared.
func resultRepr(outs []reflect.Value) string {
	var parts []string
	for _, o := range outs {
		if !o.IsValid() {
			parts = append(parts, "<invalid>")
			continue
		}
		if o.Kind() == reflect.Interface && o.IsNil() {
			parts = append(parts, "<nil>")
			continue
		}
		v := o.Interface()
		if e, ok := v.(error); ok && e != nil {
			parts = append(parts, "error:"+e.Error())
			continue
		}
		parts = append(parts, deepRepr(v))
	}
	return strings.Join(parts, " | ")
}

func deepRepr(v any) string {
	if v == nil {
		return "nil"
	}
	if sl, ok := v.([]any); ok {
		var parts []string
		for _, e := range sl {
			parts = append(parts, deepRepr(e))
		}
		return "[" + strings.Join(parts, " ") + "]"
	}
	d := stackage.VerifDump(v)
	if d != nil && (d["kind"] == "stack" || d["kind"] == "condition") {
		return normIdent(v)
	}
	rv := reflect.ValueOf(v)
	switch rv.Kind() {
	case reflect.Func, reflect.Chan, reflect.Map, reflect.Ptr, reflect.UnsafePointer:
		return fmt.Sprintf("%T@%x", v, rv.Pointer())
	}
	return fmt.Sprintf("%T:%#v", v, v)
}

type c11Target struct {
	path string
	recv any // Stack or Condition value
	ms   []methodRef
	ln   int
}

// collectTargets lists the root and every nested Stack / Condition reachable through Index/Expression.
func collectTargets(x any, path string, out *[]c11Target) {
	if s, ok := stackage.ConvertStack(x); ok && s.IsInit() {
		*out = append(*out, c11Target{path: path, recv: s, ln: s.Len()})
		for i := 0; i < s.Len(); i++ {
			v, _ := s.Index(i)
			if v != nil {
				collectTargets(v, fmt.Sprintf("%s/%d", path, i), out)
			}
		}
		return
	}
	if c, ok := stackage.ConvertCondition(x); ok && c.IsInit() {
		*out = append(*out, c11Target{path: path, recv: c, ln: 1})
		if e := c.Expression(); e != nil {
			collectTargets(e, path+"/e", out)
		}
	}
}

func c11Args(m methodRef, variant int, ln int, twin any) ([]reflect.Value, string) {
	if m.Name == "IsEqual" && variant%3 == 0 && twin != nil {
		return []reflect.Value{reflect.ValueOf(twin)}, "[twin]"
	}
	return synthArgs(m.Type, true, &synthCtx{Len: ln, Variant: variant})
}

func runC11(c C11Case) (st Stats, err error) {
	var root, twin any
	if p := guard(func() {
		root = buildRich(c.Root, c.Rich)
		twin = buildRich(c.Root, c.Rich)
		if c.RO {
			if s, ok := root.(stackage.Stack); ok {
				s.SetReadOnly(true)
			}
		}
	}); p != "" {
		return st, violf("setup/panic", "%s", p)
	}
	var targets []c11Target
	collectTargets(root, "r", &targets)
	sq, su := queriesOf(stackMethods)
	cq, cu := queriesOf(condMethods)
	SetExtra("unclassified_methods_not_asserted", append(su, cu...))
	for i := range targets {
		if _, isS := targets[i].recv.(stackage.Stack); isS {
			targets[i].ms = sq
		} else {
			targets[i].ms = cq
		}
	}
	before := Snapshot(root)
	depth := c.Root.Depth()
	nonDefault := c.Rich || c.RO
	c.Root.Walk(func(n Node, d int) {
		if n.Paren || n.Fold || n.NoPad || n.LeadOnce || n.Symbol != "" || n.Delim != "" || len(n.Encap) > 0 || n.Mutex || n.NegIdx || n.FwdIdx || n.FIFO || n.Cap > 0 {
			nonDefault = true
		}
	})

	resolve := func(call C17Call) (c11Target, methodRef, []reflect.Value, string) {
		// Variant selects the target node, the method and the arguments
		t := targets[posMod(call.Variant, len(targets))]
		m, ok := findMethod(t.ms, call.Method)
		if !ok {
			m = t.ms[posMod(call.Variant/7, len(t.ms))]
		}
		var tw any
		if t.path == "r" {
			tw = twin
		}
		args, desc := c11Args(m, call.Variant/3, t.ln, tw)
		return t, m, args, desc
	}

	if !c.Parallel {
		// unrelated traffic elsewhere in the process (zero values of the same Go types, handed to the
		// library on other structures) between a query and its repetition must not change the answer
		// (only the families of types this tree actually holds: a family the tree lacks is left
		// untouched so that the first tree holding it still sees the library "cold")
		type renderer interface{ String() string }
		var first []string
		var fams []string
		seen := map[string]bool{}
		c.Root.Walk(func(n Node, d int) {
			f := ""
			switch {
			case n.IsLeaf() && (n.Leaf.K == "stringer" || n.Leaf.K == "istringer"):
				f = "stringer"
			case !n.IsLeaf() && n.Wrap != WrapNative:
				f = "alias"
			case n.IsCond() && n.Op.K != "cmp":
				f = "operator"
			}
			if f != "" && !seen[f] {
				seen[f] = true
				fams = append(fams, f)
			}
		})
		if len(fams) > 0 {
			st.Class("foreign-traffic-between-repeats")
		}
		if p := guard(func() {
			for _, t := range targets {
				first = append(first, t.recv.(renderer).String())
			}
			if after := Snapshot(root); after != before {
				panic("String() changed the structure: " + diffSnap(before, after))
			}
			foreignZeroTraffic(fams...)
			for k, t := range targets {
				if again := t.recv.(renderer).String(); again != first[k] {
					panic(fmt.Sprintf("%s String() answered %q, and %q after unrelated queries on other structures", t.path, first[k], again))
				}
			}
		}); p != "" {
			return st, violf("String/not-repeatable-across-foreign-traffic", "%s\n  tree %s", p, c.Root.Brief())
		}
		if after := Snapshot(root); after != before {
			return st, violf("foreign-traffic/modified", "unrelated queries on other structures changed this one: %s", diffSnap(before, after))
		}
		for i, call := range c.Programs[0] {
			st.Sub++
			t, m, args, desc := resolve(call)
			outs1, p := callMethod(t.recv, m, args)
			if p != "" {
				return st, violf(m.Name+"/panic", "query %d: %s %s(%s) panicked: %s", i, t.path, m, desc, p)
			}
			if after := Snapshot(root); after != before {
				return st, violf(m.Owner+"."+m.Name+"/modified", "query %d: %s %s(%s) changed the structure: %s\n  tree %s", i, t.path, m, desc, diffSnap(before, after), c.Root.Brief())
			}
			args2, _ := c11ArgsAgain(m, call, t, twin)
			outs2, p2 := callMethod(t.recv, m, args2)
			if p2 != "" {
				return st, violf(m.Name+"/panic", "query %d (repeat): %s panicked: %s", i, m, p2)
			}
			if a, b := resultRepr(outs1), resultRepr(outs2); a != b {
				return st, violf(m.Owner+"."+m.Name+"/not-repeatable", "query %d: %s %s(%s) answered %s, then %s", i, t.path, m, desc, a, b)
			}
			if m.Name == "Unmarshal" && len(outs1) > 0 {
				if sl, ok := outs1[0].Interface().([]any); ok && sl != nil {
					ref := resultRepr(outs2)
					scribble(sl)
					if after := Snapshot(root); after != before {
						return st, violf(m.Owner+".Unmarshal/aliased", "altering the slice returned by Unmarshal changed the structure: %s", diffSnap(before, after))
					}
					outs3, _ := callMethod(t.recv, m, nil)
					if got := resultRepr(outs3); got != ref {
						return st, violf(m.Owner+".Unmarshal/aliased", "altering the returned slice changed a later Unmarshal: %s vs %s", got, ref)
					}
					st.Class("unmarshal-scribbled")
				}
			}
			st.Class("q:" + strings.TrimPrefix(m.Owner, "*") + "." + m.Name)
			if depth >= 2 && nonDefault && (m.Type.NumIn() > 1 || m.Name == "String" || m.Name == "Unmarshal") {
				st.NonTrivial = true
			}
		}
		return st, nil
	}

	// ---- parallel: every answer must equal the answer obtained in isolation
	type job struct {
		t    c11Target
		m    methodRef
		args []reflect.Value
		desc string
		want string
	}
	progs := make([][]job, len(c.Programs))
	for g, prog := range c.Programs {
		for _, call := range prog {
			t, m, args, desc := resolve(call)
			outs, p := callMethod(t.recv, m, args)
			if p != "" {
				return st, violf(m.Name+"/panic", "%s %s(%s) panicked in isolation: %s", t.path, m, desc, p)
			}
			progs[g] = append(progs[g], job{t, m, args, desc, resultRepr(outs)})
		}
	}
	start := make(chan struct{})
	var wg sync.WaitGroup
	errs := make([]string, len(progs))
	for g := range progs {
		wg.Add(1)
		go func(g int) {
			defer wg.Done()
			<-start
			for round := 0; round < 3; round++ {
				for i, j := range progs[g] {
					outs, p := callMethod(j.t.recv, j.m, j.args)
					if p != "" {
						errs[g] = fmt.Sprintf("goroutine %d query %d %s(%s) panicked: %s", g, i, j.m, j.desc, p)
						return
					}
					if got := resultRepr(outs); got != j.want {
						errs[g] = fmt.Sprintf("goroutine %d query %d %s %s(%s) answered %s, in isolation %s", g, i, j.t.path, j.m, j.desc, got, j.want)
						return
					}
				}
			}
		}(g)
	}
	close(start)
	wg.Wait()
	for _, e := range errs {
		if e != "" {
			return st, violf("parallel/answer", "%s\n  tree %s", e, c.Root.Brief())
		}
	}
	if after := Snapshot(root); after != before {
		return st, violf("parallel/modified", "parallel queries changed the structure: %s", diffSnap(before, after))
	}
	if v := c11Rendezvous(len(progs)); v != nil {
		return st, v
	}
	st.Class("parallel-rendezvous-inside-String")
	st.Sub = len(progs)
	st.Class("parallel")
	if c.RO {
		st.Class("parallel-read-only")
	}
	st.NonTrivial = depth >= 2 && nonDefault
	return st, nil
}

// c11Gate / gateLeaf: a leaf whose String method keeps its caller inside the rendering until n callers are there
// (or two seconds have passed): all n goroutines are then truly inside String() of the same structure at once, at
// the deepest level - package-level state that adds up concurrent work would show in their answers.
type c11Gate struct {
	mu    sync.Mutex
	armed bool
	need  int
	in    int
	open  chan struct{}
}

type gateLeaf struct{ g *c11Gate }

func (l gateLeaf) String() string {
	g := l.g
	g.mu.Lock()
	if !g.armed {
		g.mu.Unlock()
		return "gate"
	}
	g.in++
	if g.in == g.need {
		close(g.open)
	}
	ch := g.open
	g.mu.Unlock()
	select {
	case <-ch:
	case <-time.After(2 * time.Second):
	}
	return "gate"
}

func c11Rendezvous(n int) *Violation {
	if n < 2 {
		return nil
	}
	gate := &c11Gate{}
	var v *Violation
	p := guard(func() {
		// a chain of eight stacks, the gate at the bottom, ordinary values beside every link
		cur := stackage.Or().Push("bottom", gateLeaf{gate})
		for d := 0; d < 7; d++ {
			k := stackage.And()
			if d%2 == 1 {
				k = stackage.Or()
			}
			cur = k.Push("side"+itoa(d), cur, "tail"+itoa(d))
		}
		root := cur
		want := root.String()
		wantU, _ := root.Unmarshal()
		before := Snapshot(root)
		gate.mu.Lock()
		gate.armed, gate.need, gate.in, gate.open = true, n, 0, make(chan struct{})
		gate.mu.Unlock()
		got := make([]string, n)
		var wg sync.WaitGroup
		for g := 0; g < n; g++ {
			wg.Add(1)
			go func(g int) {
				defer wg.Done()
				defer func() {
					if r := recover(); r != nil {
						got[g] = "PANIC: " + fmt.Sprint(r)
					}
				}()
				got[g] = root.String()
			}(g)
		}
		wg.Wait()
		gate.mu.Lock()
		gate.armed = false
		gate.mu.Unlock()
		for g := range got {
			if got[g] != want {
				v = violf("parallel/rendezvous", "%d goroutines inside String() of one eight-level structure at the same time: goroutine %d got %q, in isolation %q", n, g, got[g], want)
				return
			}
		}
		if after := Snapshot(root); after != before {
			v = violf("parallel/rendezvous/modified", "simultaneous String() calls changed the structure: %s", diffSnap(before, after))
			return
		}
		if u, _ := root.Unmarshal(); fmt.Sprint(u) != fmt.Sprint(wantU) {
			v = violf("parallel/rendezvous", "Unmarshal after the simultaneous String() calls differs: %v vs %v", u, wantU)
		}
	})
	if p != "" {
		return violf("parallel/rendezvous/panic", "%s", p)
	}
	return v
}

func c11ArgsAgain(m methodRef, call C17Call, t c11Target, twin any) ([]reflect.Value, string) {
	var tw any
	if t.path == "r" {
		tw = twin
	}
	return c11Args(m, call.Variant/3, t.ln, tw)
}

var c11RecvGen = TreeGen{MaxDepth: 3, MaxWidth: 4, Budget: 16, Kinds: stackKinds,
	Leaf: func(t *rapid.T) Val { return genPrimVal(t, true, true) }, Conds: true, CondExprStack: true, CondExprCond: true, InvalidConds: true, NilLeaves: true, EmptyStacks: true,
	Options: true, Caps: true, IndexOpts: true, MutexOpt: true, FIFOOpt: true, Wraps: true, ZooLeaves: true, OddEncap: true, UnmarshalFailers: true, Ambient: true, Pasts: true, WideRuns: true, NoNestAfter: true, ReadOnlyNodes: true}

func genC11(t *rapid.T, tier Tier) C11Case {
	c := C11Case{Root: c11RecvGen.Draw(t), Rich: rapid.Bool().Draw(t, "rich"), RO: rapid.IntRange(0, 2).Draw(t, "ro") == 0}
	c.Root.Wrap = WrapNative
	raceStage := os.Getenv("VERIF_RACE") != ""
	c.Parallel = raceStage || rapid.IntRange(0, 9).Draw(t, "parallel") == 0
	names := map[string]bool{}
	sq, _ := queriesOf(stackMethods)
	cq, _ := queriesOf(condMethods)
	for _, m := range append(append([]methodRef{}, sq...), cq...) {
		names[m.Name] = true
	}
	var all []string
	for n := range names {
		all = append(all, n)
	}
	sort.Strings(all)
	// the tree-walking queries get extra weight
	all = append(all, "String", "String", "IsEqual", "IsEqual", "Unmarshal", "Unmarshal", "Traverse", "Traverse", "Less", "Index", "Valid")
	genProg := func(n int) []C17Call {
		var p []C17Call
		for i := 0; i < n; i++ {
			p = append(p, C17Call{Method: rapid.SampledFrom(all).Draw(t, "query"), Variant: rapid.IntRange(0, 3000).Draw(t, "variant")})
		}
		return p
	}
	if c.Parallel {
		g := rapid.IntRange(8, 16).Draw(t, "goroutines")
		for i := 0; i < g; i++ {
			c.Programs = append(c.Programs, genProg(rapid.IntRange(3, 8).Draw(t, "plen")))
		}
	} else {
		c.Programs = [][]C17Call{genProg(rapid.IntRange(5, 40).Draw(t, "plen"))}
	}
	return c
}

func enumC11(tier Tier, yield func(C11Case)) {
	if os.Getenv("VERIF_RACE") != "" {
		return
	}
	// the full query set, each query with 8 variants, on each template and each of its nested nodes
	for _, tpl := range c09Templates {
		if tpl.n.IsCond() {
			continue
		}
		for _, ro := range []bool{false, true} {
			sq, _ := queriesOf(stackMethods)
			cq, _ := queriesOf(condMethods)
			seen := map[string]bool{}
			for _, m := range append(append([]methodRef{}, sq...), cq...) {
				if seen[m.Name] {
					continue
				}
				seen[m.Name] = true
				var prog []C17Call
				for v := 0; v < 24; v++ {
					prog = append(prog, C17Call{Method: m.Name, Variant: v*37 + 5})
				}
				yield(C11Case{Root: tpl.n, Rich: tpl.rich, RO: ro, Programs: [][]C17Call{prog}})
			}
		}
	}
}

func init() {
	Register(Def[C11Case]{
		ID: "C11",
		Rule: "query set = the methods named in the property + every reflected Is*/Can* method + every other reflected niladic getter not on the declared mutator/exposer list (methods on neither list are reported as unclassified and not asserted). " +
			"Enumeration: every query x 24 argument variants on 5 richly configured templates (writable and read-only) and on each of their nested Stacks/Conditions. rapid (sequential): generated trees (options, capacity, FIFO, mutex, aliases, policies as pure recorders, read-only) x programs of 5..40 queries addressed to the root or any nested node: " +
			"the full snapshot of the whole structure (public getters + VerifDump, recursively) is identical after every query, the repeated query answers the same, scribbling over the Unmarshal result changes nothing. " +
			"rapid (parallel; all cases in the -race stage): 8..16 goroutines x 3..8 queries x 3 rounds behind a start barrier on one shared structure: every answer equals the answer obtained in isolation, snapshot unchanged, no race report. " +
			"non-trivial = receiver depth>=2 with >=1 non-default setting and a query that takes arguments or walks the tree; distinct = distinct case JSON",
		Gen:         genC11,
		Run:         runC11,
		Enum:        enumC11,
		EnumNote:    "every classified query x 24 variants x 5 templates x {writable, read-only} x every nested node",
		Floors:      map[string]float64{},
		Assumptions: []string{"policies installed on receivers are pure, goroutine-safe recorders", "data-race freedom is observed by the race detector on sampled executions only (never a proof of absence)"},
	})
}
