package props

// C07 — Traverse(path) equals stepwise Index descent.

import (
	"fmt"

	stackage "github.com/JesseCoretta/go-stackage"
	"pgregory.net/rapid"
)

type C07Case struct {
	Root     Node    `json:"root"`
	Paths    [][]int `json:"paths"`
	AllPaths bool    `json:"allpaths"` // additionally try every path of length <=3 over [-1, width+1]
	// Conditions (addressed by path in the tree as built) whose expression is re-assigned with SetExpression before
	// any path is tried: the tree Traverse walks is the tree as it is now, not as it was assembled
	Reassign []C07Re `json:"reassign,omitempty"`
	InPolicy bool    `json:"inpolicy,omitempty"` // the paths are additionally tried from inside a push policy of the root (its lock held)
}

type C07Re struct {
	Path []int `json:"path"`
	New  Node  `json:"new"`
}

// normIdent identifies a value irrespective of alias wrapping: Stack/Condition
// by the address of the underlying instance, anything else by identity/content.
func normIdent(v any) string {
	if v == nil {
		return "nil"
	}
	d := stackage.VerifDump(v)
	if d != nil {
		switch d["kind"] {
		case "stack":
			return fmt.Sprintf("stack@%v", d["ptr"])
		case "condition":
			return fmt.Sprintf("cond@%v", d["ptr"])
		}
	}
	return identOf(v)
}

type travInfo struct {
	failStep     int // -1 = success
	failClass    string
	laterHits    bool // after a failed descent, a later index addresses an existing element of the same stack
	laterHitsStk bool
	depth        int
	viaAlias     bool
	negIndex     bool
}

// refTraverse is the reference: stepwise descent using only Index and Expression; which values are
// Stacks / Conditions is decided by the harness's own type switch (unwrapStack / unwrapCond), not by
// the library's converters (a converter that goes wrong would otherwise mislead both sides alike).
func refTraverse(s stackage.Stack, path []int) (any, bool, travInfo) {
	info := travInfo{failStep: -1}
	if len(path) == 0 {
		info.failStep = 0
		info.failClass = "empty-path"
		return nil, false, info
	}
	cur := s
	for i, idx := range path {
		if idx < 0 {
			info.negIndex = true
		}
		v, ok := cur.Index(idx)
		if !ok {
			info.failStep = i
			info.failClass = "index-miss"
			if idx >= 0 && idx < cur.Len() {
				info.failClass = "nil-slot"
			}
			return nil, false, info
		}
		if i == len(path)-1 {
			info.depth = len(path)
			return v, true, info
		}
		descended := false
		if st, ok := unwrapStack(v); ok {
			if _, native := v.(stackage.Stack); !native {
				info.viaAlias = true
			}
			cur = st
			descended = true
		} else if c, ok := unwrapCond(v); ok {
			if st, ok := unwrapStack(c.Expression()); ok {
				cur = st
				descended = true
			} else {
				info.failClass = "cond-without-stack"
			}
		} else {
			info.failClass = "leaf"
		}
		if !descended {
			info.failStep = i
			for _, later := range path[i+1:] {
				if lv, ok := cur.Index(later); ok {
					info.laterHits = true
					if _, isS := unwrapStack(lv); isS {
						info.laterHitsStk = true
					}
				}
			}
			return nil, false, info
		}
	}
	return nil, false, info
}

func runC07(c C07Case) (st Stats, err error) {
	var root stackage.Stack
	if p := guard(func() { root = BuildStack(c.Root) }); p != "" {
		return st, violf("setup/panic", "%s", p)
	}
	for _, re := range c.Reassign {
		v, ok, _ := refTraverse(root, re.Path)
		if !ok {
			continue
		}
		cd, isC := unwrapCond(v)
		if !isC {
			continue
		}
		_, wasStack := unwrapStack(cd.Expression())
		var nv any
		if p := guard(func() { nv = Build(re.New); cd.SetExpression(nv) }); p != "" {
			return st, violf("setup/panic", "SetExpression during set-up panicked: %s", p)
		}
		if _, isStack := unwrapStack(cd.Expression()); wasStack && !isStack {
			st.Class("cond-expression-reassigned-stack-to-other")
		} else if wasStack && isStack {
			st.Class("cond-expression-reassigned-stack-to-stack")
		} else if isStack {
			st.Class("cond-expression-reassigned-other-to-stack")
		}
	}
	maxW := 0
	c.Root.Walk(func(n Node, d int) {
		if len(n.Elems) > maxW {
			maxW = len(n.Elems)
		}
	})
	paths := c.Paths
	if c.AllPaths {
		lo, hi := -1, maxW+1
		var rec func(prefix []int)
		rec = func(prefix []int) {
			paths = append(paths, append([]int{}, prefix...))
			if len(prefix) == 3 {
				return
			}
			for i := lo; i <= hi; i++ {
				rec(append(prefix, i))
			}
		}
		rec(nil)
		st.Class("all-paths<=3")
	}
	evalPaths := func() error {
		for _, path := range paths {
			st.Sub++
			wantV, wantOK, info := refTraverse(root, path)
			var gotV any
			var gotOK bool
			if p := guard(func() { gotV, gotOK = root.Traverse(path...) }); p != "" {
				return violf("traverse/panic", "Traverse(%v) panicked: %s (tree %s)", path, p, c.Root.Brief())
			}
			key := "traverse"
			if info.failStep >= 0 {
				key = fmt.Sprintf("traverse/%s-then-later", info.failClass)
				if info.laterHitsStk {
					key += "-stack"
				}
			}
			if gotOK != wantOK || normIdent(gotV) != normIdent(wantV) {
				return violf(key, "Traverse(%v)=(%s,%v), stepwise Index descent gives (%s,%v); tree %s", path, normIdent(gotV), gotOK, normIdent(wantV), wantOK, c.Root.Brief())
			}
			if !gotOK && gotV != nil {
				return violf(key+"/value-on-failure", "Traverse(%v) failed but returned %s", path, normIdent(gotV))
			}
			if info.failStep >= 0 {
				st.Class("fails-at-" + info.failClass)
				if len(path) >= 2 && info.failStep < len(path)-1 && info.laterHits {
					st.NonTrivial = true
					st.Class("fail-then-later-index-hits")
					if info.laterHitsStk {
						st.Class("fail-then-later-index-hits-stack")
					}
				}
			} else {
				st.Class(fmt.Sprintf("succeeds-depth-%d", info.depth))
			}
			if info.viaAlias {
				st.Class("through-alias")
			}
			if info.negIndex {
				st.Class("negative-index")
			}
		}
		return nil
	}
	if c.InPolicy {
		// the same comparison from INSIDE a push policy of the root (mutex enabled): the closure runs while the root's
		// lock is held - a duplicate guard that consults the existing content does exactly this
		var inner error
		called := false
		if p := guard(func() {
			root.SetMutex()
			root.SetPushPolicy(func(...any) error {
				called = true
				inner = evalPaths()
				return errValidityRejects
			})
			root.Push("probe")
			root.SetPushPolicy(nil)
			root.SetErr(nil)
		}); p != "" {
			return st, violf("traverse/in-policy/panic", "%s", p)
		}
		if inner != nil {
			if v, ok := inner.(*Violation); ok {
				v.Key = "in-policy/" + v.Key
			}
			return st, inner
		}
		if called {
			st.Class("paths-tried-while-the-root-lock-is-held")
		}
	}
	if err := evalPaths(); err != nil {
		return st, err
	}
	return st, nil
}

func c07TreeGen(tier Tier) TreeGen {
	g := TreeGen{
		MaxDepth: 4, MaxWidth: 4, Budget: 30,
		Kinds: stackKinds,
		Leaf:  func(t *rapid.T) Val { return genPrimVal(t, true, false) },
		Conds: true, CondExprStack: true, CondExprCond: true, NotAsCondExpr: true,
		IndexOpts: true, Wraps: true, NilLeaves: true, EmptyStacks: true, Caps: true, FIFOOpt: true, Options: true, ZooLeaves: true, DeepChains: true, Ambient: true, Pasts: true, WideRuns: true, NoNestAfter: true, ReadOnlyNodes: true,
	}
	if tier.Thorough {
		g.MaxWidth, g.Budget = 5, 45
	}
	return g
}

// genPathFor builds a path that follows the description for a while, then
// (optionally) steps onto a non-descendable element and continues with indices
// that are valid for the current stack — the shape in which "substituting a
// sibling" would show.
func genPathFor(t *rapid.T, root Node, maxW int) []int {
	var path []int
	cur := root
	for step := 0; step < 6; step++ {
		if len(cur.Elems) == 0 {
			break
		}
		mode := rapid.IntRange(0, 9).Draw(t, "pathmode")
		if mode == 0 {
			break
		}
		i := rapid.IntRange(0, len(cur.Elems)-1).Draw(t, "child")
		path = append(path, i)
		e := cur.Elems[i]
		var next *Node
		switch {
		case e.IsStack():
			next = &e
		case e.IsCond() && e.Expr != nil && e.Expr.IsStack():
			next = e.Expr
		}
		if next == nil || mode == 1 {
			// non-descendable (or we pretend): append indices valid for the *current* stack
			k := rapid.IntRange(0, 2).Draw(t, "extra")
			for j := 0; j < k; j++ {
				path = append(path, rapid.IntRange(0, len(cur.Elems)-1).Draw(t, "sibling"))
			}
			break
		}
		cur = *next
	}
	return path
}

func genC07(t *rapid.T, tier Tier) C07Case {
	c := C07Case{Root: c07TreeGen(tier).Draw(t)}
	maxW := 0
	c.Root.Walk(func(n Node, d int) {
		if len(n.Elems) > maxW {
			maxW = len(n.Elems)
		}
	})
	np := 20
	if tier.Thorough {
		np = 30
	}
	for i := 0; i < np; i++ {
		if rapid.Bool().Draw(t, "structured") {
			c.Paths = append(c.Paths, genPathFor(t, c.Root, maxW))
			continue
		}
		n := rapid.IntRange(0, c.Root.Depth()+2).Draw(t, "plen")
		var p []int
		for j := 0; j < n; j++ {
			if rapid.IntRange(0, 19).Draw(t, "big") == 0 {
				p = append(p, rapid.SampledFrom([]int{-100, 100, -2, 1 << 40}).Draw(t, "bigidx"))
			} else {
				p = append(p, rapid.IntRange(-1, maxW+1).Draw(t, "idx"))
			}
		}
		c.Paths = append(c.Paths, p)
	}
	c.AllPaths = c.Root.Count() <= 14 && rapid.IntRange(0, 3).Draw(t, "allpaths") == 0
	c.InPolicy = rapid.IntRange(0, 3).Draw(t, "inpolicy") == 0
	if cps := condPaths(c.Root, nil); len(cps) > 0 && rapid.IntRange(0, 2).Draw(t, "reassign?") == 0 {
		for k := rapid.IntRange(1, 2).Draw(t, "nre"); k > 0; k-- {
			re := C07Re{Path: rapid.SampledFrom(cps).Draw(t, "repath")}
			switch rapid.IntRange(0, 3).Draw(t, "renew") {
			case 0:
				re.New = Node{T: "stack", Kind: rapid.SampledFrom(stackKinds).Draw(t, "rekind"), Elems: []Node{LeafN(VS("n0")), LeafN(VS("n1"))}}
			case 1:
				e := LeafN(VS("inner"))
				re.New = Node{T: "cond", KW: "rk", Op: OpEq(), Expr: &e}
			default:
				re.New = LeafN(genPrimVal(t, false, false))
			}
			c.Reassign = append(c.Reassign, re)
		}
	}
	// the longest descendable route of the tree, its long prefixes, and the same with a trailing index
	// (paths are not bounded by any small number of indices)
	if dp := deepestPath(c.Root); len(dp) >= 7 {
		for l := 7; l <= len(dp); l++ {
			c.Paths = append(c.Paths, append([]int{}, dp[:l]...))
		}
		c.Paths = append(c.Paths, append(append([]int{}, dp...), 0), append(append([]int{}, dp...), 0, 0))
	}
	return c
}

// condPaths: the index path to every Condition reachable by descending through stacks and through Conditions holding a stack.
func condPaths(n Node, prefix []int) [][]int {
	var out [][]int
	for i, e := range n.Elems {
		p := append(append([]int{}, prefix...), i)
		switch {
		case e.IsStack():
			out = append(out, condPaths(e, p)...)
		case e.IsCond():
			out = append(out, p)
			if e.Expr != nil && e.Expr.IsStack() {
				out = append(out, condPaths(*e.Expr, p)...)
			}
		}
	}
	return out
}

// deepestPath: indices of the longest route through stacks and Conditions holding a stack, ending at a leaf.
func deepestPath(n Node) []int {
	var best []int
	for i, e := range n.Elems {
		var sub []int
		switch {
		case e.IsStack():
			sub = deepestPath(e)
		case e.IsCond() && e.Expr != nil && e.Expr.IsStack():
			sub = deepestPath(*e.Expr)
		}
		if cand := append([]int{i}, sub...); len(cand) > len(best) {
			best = cand
		}
	}
	return best
}

func init() {
	Register(Def[C07Case]{
		ID: "C07",
		Rule: "rapid-generated trees (depth<=4, width<=4/5) of stacks of all kinds with leaves, nil slots, Conditions with stack / non-stack expressions, alias wrappings and per-node negative/forward index options; " +
			"per tree 20/30 paths (half random over [-1,width+1] with occasional huge indices, half structured: follow the tree, step onto a non-descendable element, continue with indices valid for the current stack) and, for a quarter of the small trees, " +
			"every path of length <=3 over [-1,width+1]; in a third of the cases one or two Conditions of the built tree get a new expression (leaf, stack or Condition) through SetExpression before the paths are tried. Oracle: Traverse must equal the stepwise descent computed with Index/Expression and the harness's own type switch over its wrap forms (values compared by underlying instance identity). " +
			"non-trivial = the case contains a path of length >=2 whose stepwise descent fails before its last index while a later index addresses an existing element of the same stack; distinct = distinct case JSON",
		Gen: genC07,
		Run: runC07,
		Floors: map[string]float64{"fail-then-later-index-hits": 0.3, "fail-then-later-index-hits-stack": 0.03, "fails-at-leaf": 0.3, "fails-at-nil-slot": 0.05,
			"fails-at-cond-without-stack": 0.05, "through-alias": 0.1, "negative-index": 0.2, "succeeds-depth-3": 0.05, "all-paths<=3": 0.03, "cond-expression-reassigned-stack-to-other": 0.02},
		Assumptions: []string{"all stacks in the tree are initialised (zero-valued Stack elements are C08's domain)",
			"no stack on a path carries a validity closure that rejects it: Traverse consults Valid() at every level and returns nothing for a stack its owner declared invalid; the statement does not speak about such stacks, so none are generated (an error recorded with SetErr, by contrast, is generated: it must not matter)"},
	})
}
