package props

// C18 — options are independent switches with faithful getters.

import (
	"fmt"
	"reflect"
	"strings"

	stackage "github.com/JesseCoretta/go-stackage"
	"pgregory.net/rapid"
)

const (
	bParen  = 1
	bFold   = 2
	bNoPad  = 4
	bLOnce  = 8
	bNegIdx = 16
	bFwdIdx = 32
	bRO     = 128
	bNoNest = 256
)

var optBitOf = map[string]int{
	"SetParen": bParen, "Paren": bParen,
	"SetFold": bFold, "Fold": bFold,
	"SetNoPadding": bNoPad, "NoPadding": bNoPad,
	"SetLeadOnce": bLOnce, "LeadOnce": bLOnce,
	"SetNegativeIndices": bNegIdx, "NegativeIndices": bNegIdx,
	"SetForwardIndices": bFwdIdx, "ForwardIndices": bFwdIdx,
	"SetReadOnly": bRO, "ReadOnly": bRO,
	"SetNoNesting": bNoNest, "NoNesting": bNoNest,
}

var canonicalStackSetters = []string{"SetParen", "SetFold", "SetNoPadding", "SetLeadOnce", "SetNegativeIndices", "SetForwardIndices", "SetReadOnly", "SetNoNesting"}

// triStateSetters: methods with signature func(...bool) T, found by reflection.
func triStateSetters(ms []methodRef) []string {
	var out []string
	for _, m := range ms {
		t := m.Type
		if t.NumIn() == 2 && t.IsVariadic() && t.In(1).Elem().Kind() == reflect.Bool && t.NumOut() == 1 {
			out = append(out, m.Name)
		}
	}
	return out
}

type C18Step struct {
	Op   string   `json:"op"`             // tri id cat delim symbol encap aux loglevel unloglevel fifo push pop
	Name string   `json:"name,omitempty"` // tri: setter name
	Mode int      `json:"mode,omitempty"` // tri: 0 set 1 clear 2 toggle ; fifo: 0 true 1 false ; aux: 0 map 1 nil 2 none ; delim: 0 string 1 rune 2 nil
	S    string   `json:"s,omitempty"`
	SS   []string `json:"ss,omitempty"` // symbol parts / encap pair / loglevel arguments (see below)
}

type C18Case struct {
	Target string    `json:"target"` // stack | cond
	Kind   string    `json:"kind"`
	Init   int       `json:"init"`            // initial option bits (set through the setters, read-only last)
	Final  bool      `json:"final,omitempty"` // observe only after the last step (enumerated sequences: their prefixes are enumerated too)
	Steps  []C18Step `json:"steps"`
}

// ---- log level model ------------------------------------------------------------------

var logNames = []string{"CALLS", "POLICY", "STATE", "DEBUG", "ERROR", "TRACE", "USER1", "USER2", "USER3", "USER4", "USER5", "USER6", "USER7", "USER8", "USER9", "USER10"}

func logLevelsString(bits int) string {
	bits &= 0xffff
	if bits == 0xffff {
		return "ALL"
	}
	if bits == 0 {
		return "NONE"
	}
	var out []string
	for i := 0; i < 16; i++ {
		if bits&(1<<i) != 0 {
			out = append(out, logNames[i])
		}
	}
	return strings.Join(out, ",")
}

// a log-level argument is encoded as "n:<name>" | "c:<int>" (LogLevel constant) | "i:<int>" (raw int)
func logArgValue(a string) (any, int) {
	var n int
	switch a[:2] {
	case "n:":
		name := strings.ToUpper(a[2:])
		switch name {
		case "NONE":
			return a[2:], 0
		case "ALL":
			return a[2:], 0xffff
		}
		for i, ln := range logNames {
			if ln == name {
				return a[2:], 1 << i
			}
		}
		return a[2:], 0
	case "c:":
		fmt.Sscanf(a[2:], "%d", &n)
		return stackage.LogLevel(n), n & 0xffff
	default:
		fmt.Sscanf(a[2:], "%d", &n)
		return n, n & 0xffff
	}
}

type c18Model struct {
	bits    int
	id, cat string
	delim   string
	symbol  string
	enc     [][]string
	fifo    bool
	logbits int
	content []any
	kind    string
}

func (m *c18Model) ro() bool { return m.bits&bRO != 0 }

func (m *c18Model) node() Node {
	n := Node{T: "stack", Kind: m.kind, Paren: m.bits&bParen != 0, Fold: m.bits&bFold != 0, NoPad: m.bits&bNoPad != 0, LeadOnce: m.bits&bLOnce != 0,
		Symbol: m.symbol, Delim: m.delim, Encap: m.enc}
	for _, v := range m.content {
		switch tv := v.(type) {
		case string:
			n.Elems = append(n.Elems, LeafN(VS(tv)))
		case int:
			n.Elems = append(n.Elems, LeafN(VI(int64(tv))))
		}
	}
	return n
}

func applyTri(bits, bit, mode int) int {
	switch mode {
	case 0:
		return bits | bit
	case 1:
		return bits &^ bit
	}
	return bits ^ bit
}

func runC18(c C18Case) (Stats, error) {
	if c.Target == "cond" {
		return runC18Cond(c)
	}
	return runC18Stack(c)
}

func runC18Stack(c C18Case) (st Stats, err error) {
	var s stackage.Stack
	m := &c18Model{kind: c.Kind, content: []any{"a", "b", 3}}
	var userAux stackage.Auxiliary
	auxIsUser := false
	if p := guard(func() {
		s = newStackOfKind(c.Kind, 0).Push("a", "b", 3)
		for _, name := range canonicalStackSetters {
			bit := optBitOf[name]
			if bit != bRO && c.Init&bit != 0 {
				callMethod(s, methodRef{Name: name}, []reflect.Value{reflect.ValueOf(true)})
				m.bits |= bit
			}
		}
		if c.Init&bRO != 0 {
			s.SetReadOnly(true)
			m.bits |= bRO
		}
	}); p != "" {
		return st, violf("setup/panic", "%s", p)
	}

	check := func(where string) *Violation {
		var v *Violation
		p := guard(func() {
			d := stackage.VerifDump(s)
			opt := int(cfgOf(d)["opt"].(uint16))
			known := bParen | bFold | bNoPad | bLOnce | bNegIdx | bFwdIdx | bRO | bNoNest
			if opt&known != m.bits {
				v = violf("bits", "%s: option bits %09b, model %09b", where, opt&known, m.bits)
				return
			}
			if opt&^known != 0 {
				v = violf("bits/stray", "%s: unexpected option bits set: %b", where, opt&^known)
				return
			}
			if cfg := cfgOf(d); cfg["sym"] != m.symbol || cfg["ljc"] != m.delim || fmt.Sprint(cfg["enc"]) != fmt.Sprint(m.enc) && !(len(m.enc) == 0 && fmt.Sprint(cfg["enc"]) == "[]") {
				v = violf("raw-settings", "%s: stored symbol %q delimiter %q encapsulation %v; model %q %q %v (kind %s)", where, cfg["sym"], cfg["ljc"], cfg["enc"], m.symbol, m.delim, m.enc, c.Kind)
				return
			}
			if s.IsParen() != (m.bits&bParen != 0) || s.IsPadded() != (m.bits&bNoPad == 0) || s.IsReadOnly() != m.ro() || s.CanNest() != (m.bits&bNoNest == 0) {
				v = violf("getters", "%s: IsParen=%v IsPadded=%v IsReadOnly=%v CanNest=%v, model bits %09b", where, s.IsParen(), s.IsPadded(), s.IsReadOnly(), s.CanNest(), m.bits)
				return
			}
			if s.IsEncap() != (len(m.enc) > 0) {
				v = violf("IsEncap", "%s: IsEncap=%v, model encapsulation %v", where, s.IsEncap(), m.enc)
				return
			}
			if s.IsFIFO() != m.fifo {
				v = violf("IsFIFO", "%s: IsFIFO=%v, model %v", where, s.IsFIFO(), m.fifo)
				return
			}
			if s.ID() != m.id || s.Category() != m.cat {
				v = violf("ID/Category", "%s: ID=%q Category=%q, model %q %q", where, s.ID(), s.Category(), m.id, m.cat)
				return
			}
			if s.Delimiter() != m.delim {
				v = violf("Delimiter", "%s: Delimiter()=%q, model %q (kind %s)", where, s.Delimiter(), m.delim, c.Kind)
				return
			}
			if got := s.LogLevels(); got != logLevelsString(m.logbits) {
				v = violf("LogLevels", "%s: LogLevels()=%q, model %q", where, got, logLevelsString(m.logbits))
				return
			}
			if auxIsUser {
				if reflect.ValueOf(s.Auxiliary()).Pointer() != reflect.ValueOf(userAux).Pointer() {
					v = violf("Auxiliary", "%s: Auxiliary() is not the map that was set", where)
					return
				}
			}
			// content untouched
			got := readContent(s)
			if fmt.Sprint(got) != fmt.Sprint(m.content) {
				v = violf("content", "%s: content %v, model %v", where, got, m.content)
				return
			}
			// behaviour: the bits mean what they say
			if c.Kind != "BASIC" {
				want := RenderStack(m.node())
				if str := s.String(); !matchPattern(want, str) {
					v = violf("String", "%s: String()=%q, canonical %q (bits %09b symbol %q delim %q encap %v)", where, str, showPattern(want), m.bits, m.symbol, m.delim, m.enc)
					return
				}
			}
			L := len(m.content)
			if L > 0 {
				last := m.content[L-1]
				gv, gok := s.Index(-1)
				if m.bits&bNegIdx != 0 {
					if gv != last || !gok {
						v = violf("Index(-1)", "%s: negative indices on but Index(-1)=(%v,%v)", where, gv, gok)
						return
					}
				} else if gv != nil || gok {
					v = violf("Index(-1)", "%s: negative indices off but Index(-1)=(%v,%v)", where, gv, gok)
					return
				}
				gv, gok = s.Index(L + 5)
				if m.bits&bFwdIdx != 0 {
					if gv != last || !gok {
						v = violf("Index(Len+5)", "%s: forward indices on but Index(Len+5)=(%v,%v)", where, gv, gok)
						return
					}
				} else if gv != nil || gok {
					v = violf("Index(Len+5)", "%s: forward indices off but Index(Len+5)=(%v,%v)", where, gv, gok)
					return
				}
			}
		})
		if p != "" {
			return violf("check/panic", "%s: %s", where, p)
		}
		return v
	}
	if !c.Final {
		if v := check("initial"); v != nil {
			return st, v
		}
	}

	touched := map[string]bool{}
	toggles := 0
	for i, step := range c.Steps {
		st.Sub++
		where := fmt.Sprintf("after step %d %+v", i, step)
		cls := step.Op
		p := guard(func() {
			ro := m.ro()
			switch step.Op {
			case "tri":
				bit, known := optBitOf[step.Name]
				cls = "Set:" + step.Name
				if known && (!ro || bit == bRO) {
					m.bits = applyTri(m.bits, bit, step.Mode)
				}
				var args []reflect.Value
				if a := triArgs(step.Mode); len(a) > 0 {
					args = append(args, reflect.ValueOf(a[0]))
				} else {
					toggles++
				}
				touched[step.Name] = true
				if _, pp := callMethod(s, methodRef{Name: step.Name}, args); pp != "" {
					panic(pp)
				}
			case "seterr":
				// an error recorded on the instance (or cleared) has no say in any option or setting
				if step.Mode%2 == 0 {
					s.SetErr(errAmbient)
				} else {
					s.SetErr(nil)
				}
				st.Class("set-err")
			case "logger":
				// choosing where log lines go has no say in anything else (the log levels least of all)
				s.SetLogger(c18Logger(step.Mode))
				st.Class("set-logger")
			case "id":
				if !ro {
					m.id = step.S
				}
				s.SetID(step.S)
			case "cat":
				if !ro {
					m.cat = step.S
				}
				s.SetCategory(step.S)
			case "delim":
				var arg any
				want := ""
				switch step.Mode {
				case 0:
					arg, want = step.S, step.S
				case 1:
					r := []rune(step.S + "\x00")[0]
					arg = r
					if r != 0 {
						want = string(r)
					}
				default:
					arg = nil
				}
				if !ro && c.Kind == "LIST" {
					m.delim = want
				}
				if c.Kind != "LIST" {
					st.Class("delimiter-on-non-LIST")
				}
				s.SetDelimiter(arg)
			case "symbol":
				var args []any
				sym := ""
				for j, part := range step.SS {
					if j%2 == 1 && len([]rune(part)) == 1 {
						args = append(args, []rune(part)[0])
					} else {
						args = append(args, part)
					}
					sym += part
				}
				if !ro && c.Kind != "LIST" {
					m.symbol = sym
				}
				if c.Kind == "LIST" {
					st.Class("symbol-on-LIST")
				}
				s.SetSymbol(args...)
			case "encap":
				switch {
				case step.SS == nil:
					if !ro {
						m.enc = nil
					}
					s.SetEncap()
				case step.Mode == 0 && len(step.SS) == 1:
					if !ro {
						before := len(m.enc)
						m.enc = encapModelAdd(m.enc, step.SS)
						if len(m.enc) == before {
							st.Class("encap-clash-refused")
						}
					}
					s.SetEncap(step.SS[0])
				default:
					if !ro {
						before := len(m.enc)
						m.enc = encapModelAdd(m.enc, step.SS)
						if len(m.enc) == before {
							st.Class("encap-clash-refused")
						}
					}
					s.SetEncap(append([]string{}, step.SS...))
				}
			case "aux":
				switch step.Mode {
				case 0, 3:
					a := stackage.Auxiliary{"k": i}
					if step.Mode == 3 {
						a = stackage.Auxiliary{} // allocated but still empty: it is the caller's map all the same
					}
					prev, prevLen := userAux, len(userAux)
					if !ro {
						userAux, auxIsUser = a, true
					}
					s.SetAuxiliary(a)
					// the map installed before is the caller's: replacing it must not touch its entries; and
					// installing the same map once more must not either
					if prev != nil && len(prev) != prevLen {
						panic(fmt.Sprintf("SetAuxiliary changed the previously installed (caller-owned) map: %d entries before, %d after", prevLen, len(prev)))
					}
					if !ro {
						n0 := len(a)
						s.SetAuxiliary(a)
						if len(a) != n0 {
							panic(fmt.Sprintf("installing the same map a second time changed it: %d entries before, %d after", n0, len(a)))
						}
					}
				case 1:
					if !ro {
						auxIsUser = false
					}
					s.SetAuxiliary(nil)
				default:
					if !ro {
						auxIsUser = false
					}
					s.SetAuxiliary()
				}
				if !auxIsUser && !ro {
					if a := s.Auxiliary(); a == nil || a.Len() != 0 {
						panic(fmt.Sprintf("SetAuxiliary(nil/none) left %v, want a fresh empty map", a))
					}
				}
			case "loglevel", "unloglevel":
				var args []any
				set := step.Op == "loglevel"
				bits := m.logbits
				alt := -1 // alternative outcome where the docs are silent
				stop := false
				for _, a := range step.SS {
					val, ll := logArgValue(a)
					args = append(args, val)
					if stop {
						continue
					}
					if set {
						switch ll {
						case 0:
							bits, stop = 0, true
						case 0xffff:
							bits, stop = 0xffff, true
						default:
							bits |= ll
						}
					} else {
						switch ll {
						case 0:
						case 0xffff:
							// Unset(all): unchanged-and-stop (observed) or cleared (internal comment); docs silent
							alt = 0
							stop = true
						default:
							bits &^= ll
						}
					}
				}
				if set {
					s.SetLogLevel(args...)
				} else {
					s.UnsetLogLevel(args...)
				}
				if !ro {
					m.logbits = bits
					if alt >= 0 && s.LogLevels() == logLevelsString(alt) {
						m.logbits = alt
					}
				}
			case "fifo":
				want := step.Mode == 0
				if !ro && !m.fifo {
					m.fifo = want
				}
				if m.fifo && !want {
					st.Class("fifo-off-attempt")
				}
				s.SetFIFO(want)
			case "closure":
				// closures that accept everything (or their removal) have no say in any option, setting or getter
				switch step.Mode {
				case 0:
					s.SetPushPolicy(func(...any) error { return nil })
				case 1:
					s.SetPushPolicy(nil)
				case 2:
					s.SetValidityPolicy(func(...any) error { return nil })
				case 3:
					s.SetValidityPolicy(nil)
				case 4:
					s.SetEqualityPolicy(func(any, any) error { return nil })
				case 5:
					s.SetEqualityPolicy()
				case 6:
					s.SetMarshaler(func(...any) error { return nil })
				case 7:
					s.SetMarshaler()
				case 8:
					s.SetUnmarshaler(func(...any) ([]any, error) { return nil, nil })
				default:
					s.SetUnmarshaler()
				}
				st.Class("closure-installed-or-removed")
			case "push":
				if !ro {
					m.content = append(m.content, "p"+itoa(i))
				}
				s.Push("p" + itoa(i))
			case "pop":
				if !ro && len(m.content) > 0 {
					if m.fifo {
						m.content = m.content[1:]
					} else {
						m.content = m.content[:len(m.content)-1]
					}
				}
				s.Pop()
			}
		})
		if p != "" {
			return st, violf(cls+"/panic", "step %d %+v panicked: %s", i, step, p)
		}
		if c.Final && i < len(c.Steps)-1 {
			continue
		}
		if v := check(where); v != nil {
			v.Key = cls + "→" + v.Key
			return st, v
		}
	}
	st.NonTrivial = (len(touched) >= 2 && toggles >= 1) || st.hasClass("delimiter-on-non-LIST") || st.hasClass("symbol-on-LIST")
	return st, nil
}

// c18Logger: the accepted forms of a logger argument that write nowhere visible.
func c18Logger(mode int) any {
	switch mode % 5 {
	case 0:
		return liveLogger
	case 1:
		return "off"
	case 2:
		return 0
	case 3:
		return discardLogger
	}
	return nil
}

func runC18Cond(c C18Case) (st Stats, err error) {
	var cd stackage.Condition
	var userAux stackage.Auxiliary
	auxIsUser := false
	bits := 0
	var enc [][]string
	id, cat := "", ""
	logbits := 0
	if p := guard(func() {
		cd = stackage.Cond("kw", stackage.Eq, "val")
		if c.Init&bParen != 0 {
			cd.SetParen(true)
			bits |= bParen
		}
		if c.Init&bNoPad != 0 {
			cd.SetNoPadding(true)
			bits |= bNoPad
		}
		if c.Init&bNoNest != 0 {
			cd.SetNoNesting(true)
			bits |= bNoNest
		}
		if c.Init&bRO != 0 {
			cd.SetReadOnly(true)
			bits |= bRO
		}
	}); p != "" {
		return st, violf("setup/panic", "%s", p)
	}
	check := func(where string) *Violation {
		var v *Violation
		p := guard(func() {
			d := stackage.VerifDump(cd)
			opt := int(cfgOf(d)["opt"].(uint16))
			if opt != bits {
				v = violf("cond/bits", "%s: option bits %09b, model %09b", where, opt, bits)
				return
			}
			if cd.IsParen() != (bits&bParen != 0) || cd.IsPadded() != (bits&bNoPad == 0) || cd.IsReadOnly() != (bits&bRO != 0) || cd.CanNest() != (bits&bNoNest == 0) || cd.IsEncap() != (len(enc) > 0) {
				v = violf("cond/getters", "%s: IsParen=%v IsPadded=%v IsReadOnly=%v CanNest=%v IsEncap=%v, model %09b %v", where, cd.IsParen(), cd.IsPadded(), cd.IsReadOnly(), cd.CanNest(), cd.IsEncap(), bits, enc)
				return
			}
			if cd.ID() != id || cd.Category() != cat {
				v = violf("cond/ID", "%s: ID=%q Category=%q, model %q %q", where, cd.ID(), cd.Category(), id, cat)
				return
			}
			if auxIsUser {
				if reflect.ValueOf(cd.Auxiliary()).Pointer() != reflect.ValueOf(userAux).Pointer() {
					v = violf("cond/Auxiliary", "%s: Auxiliary() is not the map that was set", where)
					return
				}
				// a write through the caller's map must be visible through the getter
				userAux["probe"] = where
				if got, _ := cd.Auxiliary().Get("probe"); got != where {
					v = violf("cond/Auxiliary", "%s: a value stored in the caller's map is not seen through Auxiliary()", where)
					return
				}
				delete(userAux, "probe")
			}
			if got := cd.LogLevels(); got != logLevelsString(logbits) {
				v = violf("cond/LogLevels", "%s: LogLevels()=%q, model %q", where, got, logLevelsString(logbits))
				return
			}
			e := LeafN(VS("val"))
			want := RenderCond(Node{T: "cond", KW: "kw", Op: OpEq(), Expr: &e, Paren: bits&bParen != 0, NoPad: bits&bNoPad != 0, Encap: enc})
			if got := cd.String(); got != want {
				v = violf("cond/String", "%s: String()=%q, canonical %q", where, got, want)
				return
			}
			if cd.Keyword() != "kw" || cd.Expression() != "val" {
				v = violf("cond/content", "%s: components changed", where)
			}
		})
		if p != "" {
			return violf("cond/check/panic", "%s: %s", where, p)
		}
		return v
	}
	if v := check("initial"); v != nil {
		return st, v
	}
	condBit := map[string]int{"SetParen": bParen, "Paren": bParen, "SetNoPadding": bNoPad, "NoPadding": bNoPad, "SetNoNesting": bNoNest, "NoNesting": bNoNest, "SetReadOnly": bRO}
	touched := map[string]bool{}
	toggles := 0
	for i, step := range c.Steps {
		st.Sub++
		ro := bits&bRO != 0
		cls := step.Op
		p := guard(func() {
			switch step.Op {
			case "tri":
				bit, ok := condBit[step.Name]
				if !ok {
					return
				}
				cls = "Cond.Set:" + step.Name
				if !ro || bit == bRO {
					bits = applyTri(bits, bit, step.Mode)
				}
				var args []reflect.Value
				if a := triArgs(step.Mode); len(a) > 0 {
					args = append(args, reflect.ValueOf(a[0]))
				} else {
					toggles++
				}
				touched[step.Name] = true
				if _, pp := callMethod(cd, methodRef{Name: step.Name}, args); pp != "" {
					panic(pp)
				}
			case "seterr":
				if step.Mode%2 == 0 {
					cd.SetErr(errAmbient)
				} else {
					cd.SetErr(nil)
				}
				st.Class("set-err")
			case "logger":
				cd.SetLogger(c18Logger(step.Mode))
				st.Class("set-logger")
			case "closure":
				switch step.Mode {
				case 0, 1, 2:
					cd.SetValidityPolicy(func(...any) error { return nil })
				case 3:
					cd.SetValidityPolicy(nil)
				case 4:
					cd.SetEqualityPolicy(func(any, any) error { return nil })
				case 5:
					cd.SetEqualityPolicy()
				case 6:
					cd.SetEvaluator(func(...any) (any, error) { return nil, nil })
				case 7:
					cd.SetEvaluator(nil)
				case 8:
					cd.SetUnmarshaler(func(...any) ([]any, error) { return nil, nil })
				default:
					cd.SetUnmarshaler()
				}
				st.Class("closure-installed-or-removed")
			case "id":
				if !ro {
					id = step.S
				}
				cd.SetID(step.S)
			case "cat":
				if !ro {
					cat = step.S
				}
				cd.SetCategory(step.S)
			case "encap":
				switch {
				case step.SS == nil:
					if !ro {
						enc = nil
					}
					cd.SetEncap()
				case step.Mode == 0 && len(step.SS) == 1:
					if !ro {
						enc = encapModelAdd(enc, step.SS)
					}
					cd.SetEncap(step.SS[0])
				default:
					if !ro {
						enc = encapModelAdd(enc, step.SS)
					}
					cd.SetEncap(append([]string{}, step.SS...))
				}
			case "aux":
				cls = "Cond.SetAuxiliary"
				switch step.Mode {
				case 0, 3:
					a := stackage.Auxiliary{"k": i}
					if step.Mode == 3 {
						a = stackage.Auxiliary{}
					}
					if !ro {
						userAux, auxIsUser = a, true
					}
					cd.SetAuxiliary(a)
				case 1:
					if !ro {
						auxIsUser = false
					}
					cd.SetAuxiliary(nil)
				default:
					if !ro {
						auxIsUser = false
					}
					cd.SetAuxiliary()
				}
				if !auxIsUser && !ro {
					if a := cd.Auxiliary(); a == nil || a.Len() != 0 {
						panic(fmt.Sprintf("SetAuxiliary(nil/none) left %v, want a fresh empty map", a))
					}
				}
				st.Class("cond-aux")
			case "loglevel", "unloglevel":
				var args []any
				set := step.Op == "loglevel"
				b := logbits
				alt, stop := -1, false
				for _, a := range step.SS {
					val, ll := logArgValue(a)
					args = append(args, val)
					if stop {
						continue
					}
					if set {
						switch ll {
						case 0:
							b, stop = 0, true
						case 0xffff:
							b, stop = 0xffff, true
						default:
							b |= ll
						}
					} else {
						switch ll {
						case 0:
						case 0xffff:
							alt, stop = 0, true
						default:
							b &^= ll
						}
					}
				}
				if set {
					cd.SetLogLevel(args...)
				} else {
					cd.UnsetLogLevel(args...)
				}
				if !ro {
					logbits = b
					if alt >= 0 && cd.LogLevels() == logLevelsString(alt) {
						logbits = alt
					}
				}
			}
		})
		if p != "" {
			return st, violf(cls+"/panic", "step %d %+v panicked: %s", i, step, p)
		}
		if v := check(fmt.Sprintf("after step %d %+v", i, step)); v != nil {
			v.Key = cls + "→" + v.Key
			return st, v
		}
	}
	st.Class("cond-target")
	st.NonTrivial = len(touched) >= 2 && toggles >= 1
	return st, nil
}

// ---- enumeration and generation -------------------------------------------------------

func initStates() []int {
	var out []int
	for a := 0; a < 256; a++ {
		bits := a & 63 // six low option bits
		if a&64 != 0 {
			bits |= bRO
		}
		if a&128 != 0 {
			bits |= bNoNest
		}
		out = append(out, bits)
	}
	return out
}

func enumC18(tier Tier, yield func(C18Case)) {
	states := initStates()
	all := triStateSetters(stackMethods)
	type act struct {
		name string
		mode int
	}
	var canon, every []act
	for _, n := range canonicalStackSetters {
		for mode := 0; mode < 3; mode++ {
			canon = append(canon, act{n, mode})
		}
	}
	for _, n := range all {
		for mode := 0; mode < 3; mode++ {
			every = append(every, act{n, mode})
		}
	}
	for ki, kind := range []string{"LIST", "AND"} {
		for _, init := range states {
			// length 1 over every reflected tri-state setter (deprecated aliases and setters added later included)
			for _, a := range every {
				yield(C18Case{Target: "stack", Kind: kind, Init: init, Steps: []C18Step{{Op: "tri", Name: a.name, Mode: a.mode}}})
			}
			// length 2 over the canonical setters (quick: AND only from every 8th state)
			if ki == 1 && !tier.Thorough && init%8 != 0 {
				continue
			}
			for _, a := range canon {
				for _, b := range canon {
					yield(C18Case{Target: "stack", Kind: kind, Init: init, Final: true, Steps: []C18Step{{Op: "tri", Name: a.name, Mode: a.mode}, {Op: "tri", Name: b.name, Mode: b.mode}}})
				}
			}
			// length 3: from the zero / single-bit / all states (quick), from every state (thorough)
			pop := 0
			for x := init; x != 0; x &= x - 1 {
				pop++
			}
			if !(tier.Thorough || pop <= 1 || pop == 8) || ki == 1 && !tier.Thorough && pop == 1 {
				continue
			}
			for _, a := range canon {
				for _, b := range canon {
					for _, d := range canon {
						yield(C18Case{Target: "stack", Kind: kind, Init: init, Final: true, Steps: []C18Step{{Op: "tri", Name: a.name, Mode: a.mode}, {Op: "tri", Name: b.name, Mode: b.mode}, {Op: "tri", Name: d.name, Mode: d.mode}}})
					}
				}
			}
		}
	}
	// Conditions: every reflected tri-state setter, sequences up to length 3 from every initial state
	condSetters := triStateSetters(condMethods)
	var cacts []act
	for _, n := range condSetters {
		for mode := 0; mode < 3; mode++ {
			cacts = append(cacts, act{n, mode})
		}
	}
	for a := 0; a < 16; a++ {
		init := 0
		if a&1 != 0 {
			init |= bParen
		}
		if a&2 != 0 {
			init |= bNoPad
		}
		if a&4 != 0 {
			init |= bNoNest
		}
		if a&8 != 0 {
			init |= bRO
		}
		for _, x := range cacts {
			yield(C18Case{Target: "cond", Init: init, Steps: []C18Step{{Op: "tri", Name: x.name, Mode: x.mode}}})
			for _, y := range cacts {
				yield(C18Case{Target: "cond", Init: init, Steps: []C18Step{{Op: "tri", Name: x.name, Mode: x.mode}, {Op: "tri", Name: y.name, Mode: y.mode}}})
				if !tier.Thorough {
					continue
				}
				for _, z := range cacts {
					yield(C18Case{Target: "cond", Init: init, Steps: []C18Step{{Op: "tri", Name: x.name, Mode: x.mode}, {Op: "tri", Name: y.name, Mode: y.mode}, {Op: "tri", Name: z.name, Mode: z.mode}}})
				}
			}
		}
	}
}

func genLogArgs(t *rapid.T) []string {
	n := rapid.IntRange(0, 3).Draw(t, "nlog")
	var out []string
	for i := 0; i < n; i++ {
		switch rapid.IntRange(0, 9).Draw(t, "logform") {
		case 0:
			out = append(out, "n:"+rapid.SampledFrom([]string{"none", "NONE", "all", "All"}).Draw(t, "shortcut"))
		case 1, 2, 3:
			name := rapid.SampledFrom(logNames).Draw(t, "logname")
			if rapid.Bool().Draw(t, "lower") {
				name = strings.ToLower(name)
			}
			out = append(out, "n:"+name)
		case 4, 5, 6:
			out = append(out, fmt.Sprintf("c:%d", 1<<rapid.IntRange(0, 15).Draw(t, "bit")))
		case 7:
			out = append(out, fmt.Sprintf("c:%d", rapid.SampledFrom([]int{0, 65535, 44, 3}).Draw(t, "const")))
		default:
			out = append(out, fmt.Sprintf("i:%d", rapid.IntRange(1, 65535).Draw(t, "rawint")))
		}
	}
	return out
}

func genC18(t *rapid.T, tier Tier) C18Case {
	c := C18Case{Target: "stack", Kind: rapid.SampledFrom(stackKinds).Draw(t, "kind"), Init: rapid.SampledFrom(initStates()).Draw(t, "init")}
	setters := triStateSetters(stackMethods)
	ops := []string{"tri", "tri", "tri", "tri", "id", "cat", "delim", "symbol", "encap", "encap", "aux", "loglevel", "loglevel", "unloglevel", "logger", "seterr", "fifo", "push", "pop", "closure"}
	if rapid.IntRange(0, 4).Draw(t, "cond") == 0 {
		c.Target = "cond"
		setters = triStateSetters(condMethods)
		ops = []string{"tri", "tri", "tri", "id", "cat", "encap", "aux", "loglevel", "unloglevel", "logger", "seterr", "closure"}
	}
	if rapid.IntRange(0, 2).Draw(t, "clearro") > 0 {
		c.Init &^= bRO
	}
	n := rapid.IntRange(5, 40).Draw(t, "nsteps")
	for i := 0; i < n; i++ {
		s := C18Step{Op: rapid.SampledFrom(ops).Draw(t, "op")}
		switch s.Op {
		case "tri":
			s.Name = rapid.SampledFrom(setters).Draw(t, "setter")
			s.Mode = rapid.IntRange(0, 2).Draw(t, "mode")
			// keep read-only phases short
			if (s.Name == "SetReadOnly" || s.Name == "ReadOnly") && rapid.IntRange(0, 2).Draw(t, "rooff") > 0 {
				s.Mode = 1
			}
		case "id", "cat":
			s.S = rapid.SampledFrom([]string{"", "x", "some id", "é", "ID_1"}).Draw(t, "s")
		case "delim":
			s.Mode = rapid.IntRange(0, 2).Draw(t, "form")
			s.S = rapid.SampledFrom([]string{",", ";", "", " ", "·", "||"}).Draw(t, "delim")
		case "symbol":
			k := rapid.IntRange(0, 2).Draw(t, "nparts")
			for j := 0; j < k; j++ {
				s.SS = append(s.SS, rapid.SampledFrom([]string{"&", "|", "∧", "&&", "!", "Xor", "nand", "x"}).Draw(t, "part"))
			}
			if s.SS == nil {
				s.SS = []string{}
			}
		case "encap":
			switch rapid.IntRange(0, 4).Draw(t, "encform") {
			case 0:
				s.SS = nil
			case 1:
				s.SS = []string{rapid.SampledFrom([]string{`"`, "'", "<", "("}).Draw(t, "e1")}
				s.Mode = 0
			case 2:
				s.SS = []string{rapid.SampledFrom([]string{`"`, "'", "<", "("}).Draw(t, "e1")}
				s.Mode = 1
			default:
				s.SS = append([]string{}, rapid.SampledFrom([][]string{{"(", ")"}, {"«", "»"}, {"[", "]"}, {"<", ">"}, {`"`, "'"}, {"(", "]"}}).Draw(t, "e2")...)
				s.Mode = 1
			}
		case "logger":
			s.Mode = rapid.IntRange(0, 4).Draw(t, "loggerform")
		case "seterr":
			s.Mode = rapid.IntRange(0, 2).Draw(t, "seterr")
		case "aux":
			s.Mode = rapid.IntRange(0, 3).Draw(t, "auxform")
		case "loglevel", "unloglevel":
			s.SS = genLogArgs(t)
			if s.SS == nil {
				s.SS = []string{}
			}
		case "fifo":
			s.Mode = rapid.IntRange(0, 1).Draw(t, "fifo")
		case "closure":
			s.Mode = rapid.SampledFrom([]int{0, 0, 0, 1, 2, 2, 3, 4, 5, 6, 7, 8, 9}).Draw(t, "closure")
		}
		c.Steps = append(c.Steps, s)
	}
	return c
}

func init() {
	Register(Def[C18Case]{
		ID: "C18",
		Rule: "exhaustive: from each of the 256 initial option states (8 options set through their setters) on a LIST and an AND stack with fixed probe content: every {set,clear,toggle} of every reflected tri-state setter (deprecated aliases included), every length-2 sequence over the 8 canonical setters x 3 modes (quick: on the AND stack from every 8th state only), " +
			"and every length-3 sequence from the zero/single-bit/all states (thorough: from all 256); Conditions: all sequences up to length 2 (thorough 3) over their reflected tri-state setters from 16 initial states. " +
			"rapid: sequences of 5..40 steps mixing those with SetID, SetCategory, SetDelimiter (string/rune/nil), SetSymbol (strings/runes/none), SetEncap (string, 1- and 2-element slices, clashes, no argument), SetAuxiliary (populated map/empty map/nil/none, on Stacks and Conditions; identity and write-through), SetLogger (logger value, off, 0, nil), SetLogLevel/UnsetLogLevel (names in any case, constants, raw ints, none/all), SetFIFO(true/false), Push/Pop. " +
			"Oracle after every step: raw option bits (VerifDump) == record model gated by read-only; getters IsParen/IsPadded/IsReadOnly/CanNest/IsEncap/IsFIFO; ID/Category/Delimiter/LogLevels/Auxiliary identity; content unchanged; String() == canonical rendering under the model's options; Index(-1)/Index(Len+5) behave per the index bits. " +
			"non-trivial = sequence touches >=2 different options with >=1 toggle, or uses a string-valued setter on the kind that must ignore it; distinct = distinct case JSON",
		Gen:         genC18,
		Run:         runC18,
		Enum:        enumC18,
		EnumNote:    "256 initial option states x {all reflected tri-state setters x 3 modes; all length-2 sequences over 8 canonical setters x 3 modes}; length-3 from 10 (quick) / 256 (thorough) states; Conditions up to length 2/3",
		Floors:      map[string]float64{"cond-target": 0.1, "encap-clash-refused": 0.05, "delimiter-on-non-LIST": 0.1, "symbol-on-LIST": 0.03, "fifo-off-attempt": 0.02},
		Assumptions: []string{"UnsetLogLevel(all) may leave the set unchanged or clear it (public docs silent); unknown log-level names are not generated", "IDs _random/_addr are not generated"},
	})
}
