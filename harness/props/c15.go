package props

// C15 — Transfer copies everything or reports failure, and never touches the source.

import (
	"errors"
	"fmt"

	stackage "github.com/JesseCoretta/go-stackage"
	"pgregory.net/rapid"
)

type C15Case struct {
	SrcKind  string `json:"srckind"`
	SrcLen   int    `json:"srclen"`
	SrcFIFO  bool   `json:"srcfifo"`
	SrcNils  bool   `json:"srcnils"`            // every third source element (from index 1) is nil
	SrcWeird int    `json:"srcweird,omitempty"` // 1+index of a source element that is a typed nil pointer (depth 1..3) or a pointer to one; 0 none
	SrcIdx   int    `json:"srcidx,omitempty"`   // index options on the source (1 negative, 2 forward, 3 both) - and on the destination (x4): Transfer addresses elements itself, the options have no say
	SrcAmb   int    `json:"srcamb,omitempty"`   // ambient settings on the source ...
	DstAmb   int    `json:"dstamb,omitempty"`   // ... and on the destination (applied last; a recorded error does not make a read-only destination writable)
	SrcMutex bool   `json:"srcmutex,omitempty"` // the source has SetMutex(): a lock taken on it must be released on every path
	SrcStack int    `json:"srcstack"`           // index of a nested Stack element in the source, -1 = none
	DstKind  string `json:"dstkind"`
	DstLen   int    `json:"dstlen"`
	CapExtra int    `json:"capextra"`          // -1: no capacity; else capacity = DstLen + CapExtra
	Form     string `json:"form"`              // native alias ptrstack ptralias readonly zero zeroalias nil typednil int string cond
	Opt      string `json:"opt"`               // plain nonest policy
	Reject   int    `json:"reject"`            // policy: index of the source element the policy rejects (may be >= SrcLen: rejects nothing)
	DstPrep  string `json:"dstprep,omitempty"` // history of the destination before the transfer: "" (constructor+Push) | reset | remove | insertfront | popfifo
}

var c15Forms = []string{"native", "alias", "ptrstack", "ptralias", "readonly", "readonly-alias", "readonly-ptrstack", "readonly-ptralias", "zero", "zeroalias", "nil", "typednil", "typednil2", "typednil2alias", "typednil3int", "ptr-to-nilptr", "ptr2-to-nilptr2", "int", "string", "cond"}

func runC15(c C15Case) (st Stats, err error) {
	var src, dst stackage.Stack
	var srcVals []any
	rejectErr := errors.New("policy says no")
	var rejectVal any = struct{ x int }{-1} // matches nothing unless set
	var dstArg any

	if p := guard(func() {
		src = newStackOfKind(c.SrcKind, 0)
		if c.SrcFIFO {
			src.SetFIFO(true)
		}
		if c.SrcMutex {
			src.SetMutex()
		}
		if c.SrcIdx&1 != 0 {
			src.SetNegativeIndices(true)
		}
		if c.SrcIdx&2 != 0 {
			src.SetForwardIndices(true)
		}
		for i := 0; i < c.SrcLen; i++ {
			var v any = tagValue(100 + i)
			if c.SrcNils && i%3 == 1 {
				v = nil
			}
			if i == c.SrcStack {
				v = stackage.Or().Push("nested")
			}
			if i == c.SrcWeird-1 {
				v = weirdElement(i + c.DstLen)
			}
			srcVals = append(srcVals, v)
			src.Push(v)
		}
		cp := 0
		if c.CapExtra >= 0 {
			cp = c.DstLen + c.CapExtra
		}
		dst = newStackOfKind(c.DstKind, cp)
		if c.SrcIdx&4 != 0 {
			dst.SetNegativeIndices(true)
		}
		if c.SrcIdx&8 != 0 {
			dst.SetForwardIndices(true)
		}
		// the destination's earlier history must not matter (its backing array may have been re-allocated)
		switch c.DstPrep {
		case "reset":
			dst.Push("junk1", "junk2")
			dst.Reset()
		case "remove":
			dst.Push("junk1")
			dst.Remove(0)
		}
		// popped / poppedfifo: up to three extra values are pushed and popped again (at the newest end, or - in FIFO
		// mode - at the oldest end): the slots they occupied lie beyond the destination's content and may not show again
		extra := 3
		if c.CapExtra >= 0 && extra > c.CapExtra {
			extra = c.CapExtra
		}
		if c.DstPrep == "poppedfifo" {
			for i := 0; i < extra; i++ {
				dst.Push("stale-front" + itoa(i))
			}
		}
		for i := 0; i < c.DstLen; i++ {
			dst.Push(tagValue(i + 1))
		}
		switch c.DstPrep {
		case "popped":
			for i := 0; i < extra; i++ {
				dst.Push("stale" + itoa(i))
			}
			for i := 0; i < extra; i++ {
				dst.Pop()
			}
		case "poppedfifo":
			dst.SetFIFO(true)
			for i := 0; i < extra; i++ {
				dst.Pop()
			}
		case "insertfront":
			if c.DstLen > 0 {
				dst.Remove(0)
				dst.Insert(tagValue(1), 0)
			}
		case "popfifo":
			if c.DstLen > 0 {
				v, _ := dst.Index(c.DstLen - 1)
				dst.Remove(c.DstLen - 1)
				dst.Push(v)
			}
		}
		switch c.Opt {
		case "nonest":
			dst.SetNoNesting(true)
		case "policy":
			if c.Reject >= 0 && c.Reject < len(srcVals) && srcVals[c.Reject] != nil {
				if _, isStack := srcVals[c.Reject].(stackage.Stack); !isStack {
					rejectVal = srcVals[c.Reject]
				}
			}
			dst.SetPushPolicy(func(x ...any) error {
				if len(x) > 0 && sameElem(x[0], rejectVal) {
					return rejectErr
				}
				return nil
			})
		}
		ApplyAmbient(src, c.SrcAmb&^AmbPushOK)
		ApplyAmbient(dst, c.DstAmb&^AmbPushOK) // (mutex, recorded error ... on every destination, policy-bearing ones included)
		switch c.Form {
		case "native":
			dstArg = dst
		case "alias":
			dstArg = MyStack(dst)
		case "ptrstack":
			d := dst
			dstArg = &d
		case "ptralias":
			d := MyStack(dst)
			dstArg = &d
		case "readonly":
			dst.SetReadOnly(true)
			if c.DstAmb&AmbErr != 0 {
				dst.SetErr(errAmbient) // (SetErr is allowed on a read-only instance)
			}
			dstArg = dst
		case "readonly-alias":
			dst.SetReadOnly(true)
			dstArg = MyStack(dst)
		case "readonly-ptrstack":
			dst.SetReadOnly(true)
			d := dst
			dstArg = &d
		case "readonly-ptralias":
			dst.SetReadOnly(true)
			d := MyStack(dst)
			dstArg = &d
		case "zero":
			dstArg = stackage.Stack{}
		case "zeroalias":
			dstArg = MyStack{}
		case "nil":
			dstArg = nil
		case "typednil":
			dstArg = (*stackage.Stack)(nil)
		case "typednil2":
			dstArg = (**stackage.Stack)(nil)
		case "typednil2alias":
			dstArg = (**MyStack)(nil)
		case "typednil3int":
			dstArg = (***int)(nil)
		case "ptr-to-nilptr":
			var p *stackage.Stack
			dstArg = &p
		case "ptr2-to-nilptr2":
			var p **stackage.Stack
			dstArg = &p
		case "int":
			dstArg = 5
		case "string":
			dstArg = "dst"
		case "cond":
			dstArg = stackage.Cond("k", stackage.Eq, "v")
		}
	}); p != "" {
		return st, violf("setup/panic", "setup panicked: %s", p)
	}

	srcBefore := Snapshot(src)
	dstBefore := Snapshot(dst)
	dstOld := readContent(dst)
	var ok bool
	if p := guard(func() { ok = src.Transfer(dstArg) }); p != "" {
		return st, violf("transfer/panic/"+c.Form, "Transfer(%s destination) panicked: %s", c.Form, p)
	}
	if after := Snapshot(src); after != srcBefore {
		return st, violf("source-changed", "source changed by Transfer: %s", diffSnap(srcBefore, after))
	}
	if c.SrcMutex {
		// the source must still be usable: a lock left behind shows as a lock request that cannot be served
		locked := false
		stackage.VerifHook = func(ev string, id uintptr) {
			if ev == "lock.want" {
				if d := stackage.VerifDump(src); cfgOf(d)["ldr"] == true {
					locked = true
					panic("the source's lock is still held after Transfer")
				}
			}
		}
		p := guard(func() { src.SetID("probe"); src.SetID("") })
		InstallLockWatch()
		if locked || p != "" {
			return st, violf("source-lock-leaked", "after Transfer the source cannot be locked again: %s", p)
		}
		st.Class("source-with-mutex")
	}
	dstAfter := Snapshot(dst)
	dstNew := readContent(dst)

	isStackDst := c.Form == "native" || c.Form == "alias" || c.Form == "ptrstack" || c.Form == "ptralias"
	free := 1 << 30
	if c.CapExtra >= 0 && c.DstLen+c.CapExtra > 0 { // a capacity of zero means "none"
		free = c.CapExtra
	}
	filterDrops := false
	switch c.Opt {
	case "nonest":
		filterDrops = c.SrcStack >= 0 && c.SrcStack < c.SrcLen
	case "policy":
		_, unset := rejectVal.(struct{ x int })
		filterDrops = !unset
	}

	wantAll := append(append([]any{}, dstOld...), srcVals...)
	sameAsAll := func() bool {
		if len(dstNew) != len(wantAll) {
			return false
		}
		for i := range wantAll {
			if _, isS := wantAll[i].(stackage.Stack); isS {
				if identOf(wantAll[i]) != identOf(dstNew[i]) {
					return false
				}
				continue
			}
			if !sameElem(wantAll[i], dstNew[i]) {
				return false
			}
		}
		return true
	}

	rel := "fits"
	switch {
	case free < c.SrcLen && free > 0:
		rel = "partial-fit"
	case free < c.SrcLen:
		rel = "no-room"
	case free == c.SrcLen:
		rel = "exact-fit"
	}
	st.Class("form:" + c.Form)
	st.Class("rel:" + rel)

	if ok && !sameAsAll() {
		return st, violf(fmt.Sprintf("true-returned/%s/%s/%s", rel, c.Form, c.Opt),
			"Transfer returned true but destination holds %v; want old %v followed by source %v", dstNew, dstOld, srcVals)
	}
	mustFail := !isStackDst || free < c.SrcLen
	if mustFail {
		if ok {
			return st, violf(fmt.Sprintf("true-returned/%s/%s", rel, c.Form), "Transfer returned true for a destination that cannot take the source (form %s, free %d, source %d)", c.Form, free, c.SrcLen)
		}
		if dstAfter != dstBefore {
			return st, violf(fmt.Sprintf("dst-changed/%s/%s", rel, c.Form), "Transfer returned false but the destination changed: %s", diffSnap(dstBefore, dstAfter))
		}
	} else if filterDrops {
		st.Class("filter-drops")
		if ok {
			return st, violf("true-returned/filter-drops/"+c.Opt, "Transfer returned true although the destination's %s dropped a source element", c.Opt)
		}
		// lenient: the destination may have been partly filled; its old content must still lead
		if len(dstNew) < len(dstOld) {
			return st, violf("dst-shrunk/filter-drops", "destination lost elements: %v -> %v", dstOld, dstNew)
		}
		for i := range dstOld {
			if !sameElem(dstOld[i], dstNew[i]) {
				return st, violf("dst-old-content/filter-drops", "destination's previous elements changed: %v -> %v", dstOld, dstNew)
			}
		}
	} else {
		if ok {
			if c.SrcLen > 0 {
				st.Class("ok-true-nonempty")
			}
		} else {
			st.Class("refused-though-fits")
			if dstAfter != dstBefore {
				return st, violf("dst-changed/fits/"+c.Form, "Transfer returned false but the destination changed: %s", diffSnap(dstBefore, dstAfter))
			}
		}
	}

	// Transfer into the receiver itself (every form): it returns normally - with the mutex enabled too - and
	// "true" means: previous elements followed by the source's, which here is the content twice
	if c.SrcLen <= 12 && c.DstLen%3 == 0 {
		for fi, mkArg := range []func(s stackage.Stack) any{
			func(s stackage.Stack) any { return s },
			func(s stackage.Stack) any { return MyStack(s) },
			func(s stackage.Stack) any { return &s },
		} {
			self := newStackOfKind(c.SrcKind, 0)
			if c.SrcMutex {
				self.SetMutex()
			}
			for i := 0; i < c.SrcLen; i++ {
				self.Push(tagValue(300 + i))
			}
			var ok bool
			if p := guard(func() { ok = self.Transfer(mkArg(self)) }); p != "" {
				return st, violf("self-transfer/panic", "Transfer into the receiver itself (form %d, mutex %v) did not return normally: %s", fi, c.SrcMutex, p)
			}
			if ok && self.Len() != 2*c.SrcLen {
				return st, violf("self-transfer/true", "Transfer into the receiver itself returned true with Len %d, source had %d", self.Len(), c.SrcLen)
			}
			if !ok && self.Len() != c.SrcLen {
				return st, violf("self-transfer/false-but-changed", "Transfer into the receiver itself returned false and left Len %d, was %d", self.Len(), c.SrcLen)
			}
		}
		st.Class("self-transfer")
	}
	// a destination handed over by pointer is whatever the pointer points to NOW: the same pointer is used
	// again after its pointee was replaced by (a) a zero value, (b) a read-only stack, (c) a fresh roomy stack
	if ptr, isPtr := dstArg.(*stackage.Stack); isPtr && ptr != nil && (c.Form == "ptrstack" || c.Form == "readonly-ptrstack") {
		old := *ptr
		oldSnap := Snapshot(old)
		var v *Violation
		p := guard(func() {
			*ptr = stackage.Stack{}
			if src.Transfer(ptr) {
				v = violf("pointer-reuse/zero-pointee", "Transfer returned true for a pointer whose pointee is now a zero Stack")
				return
			}
			ro := stackage.Basic().Push("keep").SetReadOnly(true)
			*ptr = ro
			if src.Transfer(ptr) || ro.Len() != 1 {
				v = violf("pointer-reuse/read-only-pointee", "Transfer through a pointer whose pointee is now a read-only stack: returned true or changed it (Len %d)", ro.Len())
				return
			}
			fresh := stackage.Basic()
			*ptr = fresh
			ok := src.Transfer(ptr)
			if ok != (fresh.Len() == c.SrcLen) || (c.SrcLen > 0 && !filterDrops && !ok && c.Opt == "plain") {
				v = violf("pointer-reuse/fresh-pointee", "Transfer through a pointer whose pointee is now a fresh stack returned %v and put %d of %d elements there", ok, fresh.Len(), c.SrcLen)
				return
			}
			if after := Snapshot(old); after != oldSnap {
				v = violf("pointer-reuse/former-pointee-changed", "Transfer through the re-pointed pointer changed the stack it used to point to: %s", diffSnap(oldSnap, after))
			}
		})
		if p != "" {
			return st, violf("pointer-reuse/panic", "%s", p)
		}
		if v != nil {
			return st, v
		}
		st.Class("destination-pointer-reused")
	}
	st.NonTrivial = (free > 0 && free < c.SrcLen) || (free == c.SrcLen && c.SrcLen > 0) || filterDrops
	st.Sig = fmt.Sprintf("%+v", c)
	return st, nil
}

// weirdPointer: pointer-typed values that are not Stacks: typed nils of depth 1..3 and live pointers to nil pointers.
// sameElem: identity of two stored elements ([]any elements are not comparable with ==).
func sameElem(a, b any) bool {
	if sa, ok := a.([]any); ok {
		sb, ok2 := b.([]any)
		return ok2 && len(sa) == len(sb) && identOf(a) == identOf(b)
	}
	if _, ok := b.([]any); ok {
		return false
	}
	return a == b
}

// weirdElement: pointer-typed non-Stack values and []any values (the Marshal envelope type) as plain elements.
func weirdElement(i int) any {
	switch i % 10 {
	case 6:
		return []any{"only"}
	case 7:
		return []any{[]any{"inner"}}
	case 8:
		return []any{"a", "b"}
	case 9:
		return []any{}
	}
	return weirdPointer(i)
}

func weirdPointer(i int) any {
	switch i % 6 {
	case 0:
		return (*int)(nil)
	case 1:
		return (**int)(nil)
	case 2:
		return (***string)(nil)
	case 3:
		return (**stackage.Stack)(nil)
	case 4:
		var p *int
		return &p
	}
	var p **MyStack
	return &p
}

func enumC15(tier Tier, yield func(C15Case)) {
	for srcLen := 0; srcLen <= 6; srcLen++ {
		for dstLen := 0; dstLen <= 6; dstLen++ {
			for capExtra := -1; capExtra <= 7; capExtra++ {
				for _, fifo := range []bool{false, true} {
					for _, nils := range []bool{false, true} {
						base := C15Case{SrcKind: stackKinds[(srcLen+dstLen)%5], DstKind: stackKinds[(srcLen+2*dstLen+1)%5],
							SrcLen: srcLen, DstLen: dstLen, CapExtra: capExtra, SrcFIFO: fifo, SrcNils: nils, SrcStack: -1, Opt: "plain",
							SrcAmb: ((srcLen*5 + dstLen + capExtra + 2) * 37) % (AmbAll + 1), DstAmb: ((srcLen + dstLen*11 + capExtra + 5) * 53) % (AmbAll + 1),
							SrcMutex: (srcLen+dstLen+capExtra)%2 == 0, SrcIdx: (srcLen*7 + dstLen*3 + capExtra + 1) % 16}
						for _, form := range c15Forms {
							c := base
							c.Form = form
							yield(c)
						}
						// destinations with a history (native form)
						for _, prep := range []string{"reset", "remove", "insertfront", "popfifo", "popped", "poppedfifo"} {
							c := base
							c.Form = "native"
							c.DstPrep = prep
							yield(c)
						}
						// destination-side filters on a native destination
						c := base
						c.Form = "native"
						c.Opt = "nonest"
						c.SrcStack = srcLen / 2
						yield(c)
						c.SrcStack = -1
						yield(c)
						if srcLen > 0 {
							// pointer-typed non-Stack source elements against the no-nesting filter and a plain destination
							c.SrcWeird = 1 + (srcLen+dstLen+capExtra+1)%srcLen
							yield(c)
							c.Opt = "plain"
							yield(c)
							c.SrcWeird = 0
						}
						c.Opt = "policy"
						c.Reject = srcLen / 2
						yield(c)
						c.Reject = srcLen + 1
						yield(c)
						if srcLen > 0 {
							// an accepting policy and an element of an unusual Go type (pointer-typed, []any ...)
							c.SrcWeird = 1 + (srcLen+dstLen+capExtra+2)%srcLen
							yield(c)
							c.SrcWeird = 0
						}
					}
				}
			}
		}
	}
}

// genLenWithBulk: usually 0..maxLen, one time in eight 13..70 (past the allocator's growth steps 16/32/64).
func genLenWithBulk(t *rapid.T, label string, maxLen int) int {
	if rapid.IntRange(0, 7).Draw(t, label+"-bulk?") == 0 {
		if rapid.IntRange(0, 5).Draw(t, label+"-huge?") == 0 {
			return rapid.IntRange(250, 520).Draw(t, label+"-huge")
		}
		return rapid.IntRange(13, 70).Draw(t, label+"-bulk")
	}
	return rapid.IntRange(0, maxLen).Draw(t, label)
}

func genC15(t *rapid.T, tier Tier) C15Case {
	maxLen := 12
	if tier.Thorough {
		maxLen = 40
	}
	c := C15Case{
		SrcKind: rapid.SampledFrom(stackKinds).Draw(t, "srckind"),
		DstKind: rapid.SampledFrom(stackKinds).Draw(t, "dstkind"),
		SrcLen:  genLenWithBulk(t, "srclen", maxLen),
		DstLen:  genLenWithBulk(t, "dstlen", maxLen),
		SrcFIFO: rapid.Bool().Draw(t, "fifo"),
		SrcNils: rapid.Bool().Draw(t, "nils"),
		Form:    rapid.SampledFrom([]string{"native", "native", "native", "alias", "ptrstack", "ptralias", "readonly", "readonly-alias", "readonly-ptrstack", "readonly-ptralias", "zero", "zeroalias", "nil", "typednil", "typednil2", "typednil2alias", "typednil3int", "ptr-to-nilptr", "ptr2-to-nilptr2", "int", "string", "cond"}).Draw(t, "form"),
		Opt:     rapid.SampledFrom([]string{"plain", "plain", "nonest", "policy"}).Draw(t, "opt"),
	}
	c.SrcStack = -1
	if rapid.Bool().Draw(t, "hasstack") {
		c.SrcStack = rapid.IntRange(0, max(maxLen, c.SrcLen)).Draw(t, "srcstack")
	}
	c.CapExtra = -1
	if rapid.IntRange(0, 3).Draw(t, "hascap") > 0 {
		// bias around the source length
		c.CapExtra = c.SrcLen + rapid.IntRange(-3, 2).Draw(t, "capdelta")
		if c.CapExtra < 0 {
			c.CapExtra = 0
		}
	}
	c.Reject = rapid.IntRange(0, max(maxLen, c.SrcLen)+1).Draw(t, "reject")
	c.DstPrep = rapid.SampledFrom([]string{"", "", "reset", "remove", "insertfront", "popfifo", "popped", "popped", "poppedfifo"}).Draw(t, "dstprep")
	c.SrcMutex = rapid.Bool().Draw(t, "srcmutex")
	if rapid.Bool().Draw(t, "idxopts?") {
		c.SrcIdx = rapid.IntRange(1, 15).Draw(t, "idxopts")
	}
	c.SrcAmb = drawAmbient(t, false)
	c.DstAmb = drawAmbient(t, false)
	if c.SrcLen > 0 && rapid.IntRange(0, 4).Draw(t, "weird?") == 0 {
		c.SrcWeird = 1 + rapid.IntRange(0, c.SrcLen-1).Draw(t, "weirdat")
		if c.SrcWeird-1 == c.SrcStack {
			c.SrcWeird = 0
		}
	}
	return c
}

func init() {
	Register(Def[C15Case]{
		ID: "C15",
		Rule: "exhaustive grid source length 0..6 x destination length 0..6 x destination capacity {none, len+0..len+7} x source LIFO/FIFO x source with/without nil elements x " +
			"15 destination forms (native, alias, pointer to Stack, pointer to alias, read-only in each of these four forms, zero Stack, zero alias, nil, typed nil pointer, int, string, Condition) plus no-nesting / rejecting-push-policy destinations and destinations with a history (Reset-and-refill, Remove, front Insert, remove-and-push: re-allocated backing arrays); " +
			"plus rapid-generated larger cells (lengths up to 12, thorough 40; one in eight 13..70). Oracle: source snapshot (public getters + VerifDump) identical; true => destination == old content ++ source; " +
			"too little room / read-only / non-Stack destination => false and destination snapshot identical; destination-side filter dropping an element => false. " +
			"non-trivial = 0<free<srcLen, or free==srcLen>0, or a destination-side filter drops an element; distinct = distinct cell",
		Gen:      genC15,
		Run:      runC15,
		Enum:     enumC15,
		EnumNote: "the full (srcLen 0..6, dstLen 0..6, capacity none/len+0..7, FIFO, nils, 12 destination forms + 4 filter variants) grid",
		Floors:   map[string]float64{"ok-true-nonempty": 0.05, "rel:partial-fit": 0.03, "filter-drops": 0.02},
		Assumptions: []string{"when everything fits, a refusal (false, destination unchanged) is accepted: the statement only constrains a true result (class refused-though-fits is reported)",
			"self-transfer (source == destination) is outside the statement and is not generated"},
	})
}
