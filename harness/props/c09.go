package props

// C09 — a read-only Stack or Condition cannot be changed.

import (
	"errors"
	"fmt"
	"sort"
	"strings"
	"sync"

	stackage "github.com/JesseCoretta/go-stackage"
	"pgregory.net/rapid"
)

type C09Case struct {
	Recv    Node      `json:"recv"`              // stack or cond description
	Rich    bool      `json:"rich"`              // install policies, aux, id, category, log levels, less func, mutex
	Invalid bool      `json:"invalid,omitempty"` // the installed validity policy REJECTS the instance (read-only must hold all the same)
	Calls   []C17Call `json:"calls"`
}

// buildRich builds the receiver and decorates it with every kind of setting.
func c09Foreign(mk func() any, isCond bool, st *Stats) *Violation {
	names := []string{"native", "alias", "pointer", "pointer-to-alias"}
	type step struct {
		name string
		deep bool
		run  func(ro any, f any)
	}
	steps := []step{
		{"Transfer(read-only as %s)", true, func(ro, f any) { stackage.Basic().Push("t1", "t2").Transfer(f) }},
		{"IsEqual(read-only as %s)", true, func(ro, f any) { _ = stackage.And().Push("q").IsEqual(f) }},
		{"self.Transfer(self as %s)", true, func(ro, f any) {
			if s, ok := ro.(stackage.Stack); ok {
				s.Transfer(f)
			}
		}},
		// shallow from here on: what a parent's or holder's mutators do INSIDE a writable descendant of the
		// read-only instance is that descendant's business (it can be reached through its own handle as well)
		{"Push+Reveal+Defrag+Reverse+Reset on a parent holding it as %s", false, func(ro, f any) {
			p := stackage.And().Push("p1", f, nil, "p2")
			p.Reveal()
			p.Defrag()
			p.Reverse()
			_ = p.String()
			_, _ = p.Unmarshal()
			p.Reset()
		}},
		{"single-member parent revealed (%s)", false, func(ro, f any) { stackage.Or().Push(stackage.And().Push(f)).Reveal() }},
		{"first member of a parent that also holds a needless envelope, revealed (%s)", false, func(ro, f any) {
			stackage.And().Push(f, stackage.And().Push(stackage.Or().Push("a", "b")), "tail").Reveal()
		}},
		// a second handle of a read-only Condition is re-initialised (Init replaces the instance behind THAT handle
		// only) and then used like any writable Condition: nothing it does may reach the read-only instance
		{"second handle Init() then SetLogLevel(all)+setters (%s)", true, func(ro, f any) {
			if c, ok := ro.(stackage.Condition); ok {
				h := c
				h.Init()
				h.SetLogLevel(stackage.AllLogLevels)
				h.SetKeyword("other").SetOperator(stackage.Ne).SetExpression("else").SetID("h2").SetCategory("h2cat")
				h.Paren().NoPadding().Encap("<", ">").SetNoNesting()
				h.SetAuxiliary(stackage.Auxiliary{"h2": 1})
				h.SetErr(errors.New("h2 error"))
			}
		}},
		{"second handle Init() then UnsetLogLevel(all)+SetLogger (%s)", true, func(ro, f any) {
			if c, ok := ro.(stackage.Condition); ok {
				h := c
				h.Init()
				h.UnsetLogLevel(stackage.AllLogLevels)
				h.SetLogger(c18Logger(3))
				h.SetLogger(c18Logger(0))
			}
		}},
		{"Condition holding it as %s", false, func(ro, f any) {
			c := stackage.Cond("holder", stackage.Eq, f)
			_ = c.String()
			c.SetExpression("other")
			c.Free()
		}},
	}
	for fi := range names {
		for _, stp := range steps {
			ro := mk()
			var f any
			if isCond {
				c := ro.(stackage.Condition)
				a := MyCond(c)
				f = []any{c, a, &c, &a}[fi]
			} else {
				s := ro.(stackage.Stack)
				a := MyStack(s)
				f = []any{s, a, &s, &a}[fi]
			}
			shallow := func() string { return publicView(ro) + " cfg=" + fmt.Sprint(cfgOf(stackage.VerifDump(ro))) }
			deepBase, shallowBase := Snapshot(ro), shallow()
			name := fmt.Sprintf(stp.name, names[fi])
			if p := guard(func() { stp.run(ro, f) }); p != "" {
				return violf("foreign/panic", "%s panicked: %s", name, p)
			}
			if stp.deep {
				if after := Snapshot(ro); after != deepBase {
					return violf("foreign/"+fmt.Sprintf(stp.name, "*"), "%s changed the read-only instance: %s", name, diffSnap(deepBase, after))
				}
			} else if after := shallow(); after != shallowBase {
				return violf("foreign/"+fmt.Sprintf(stp.name, "*"), "%s changed the read-only instance (own configuration / direct members): %s", name, diffSnap(shallowBase, after))
			}
		}
	}
	st.Class("read-only-as-argument-and-member")
	return nil
}

// roAnswers: the answers of the identity-free queries (the read-only flag itself left out).
func roAnswers(x any) string {
	var b strings.Builder
	p := guard(func() {
		if s, ok := x.(stackage.Stack); ok {
			fmt.Fprintf(&b, "Len=%d Kind=%s Cap=%d Avail=%d FIFO=%v Init=%v Empty=%v Full=%v CapReached=%v Paren=%v Padded=%v Encap=%v Nesting=%v CanNest=%v CanMutex=%v ID=%q Cat=%q Delim=%q LogLevels=%s Aux=%d Valid=%v String=%q",
				s.Len(), s.Kind(), s.Cap(), s.Avail(), s.IsFIFO(), s.IsInit(), s.IsEmpty(), s.IsFull(), s.CapReached(), s.IsParen(), s.IsPadded(),
				s.IsEncap(), s.IsNesting(), s.CanNest(), s.CanMutex(), s.ID(), s.Category(), s.Delimiter(), s.LogLevels(), s.Auxiliary().Len(), s.Valid() == nil, s.String())
			u, e := s.Unmarshal()
			fmt.Fprintf(&b, " Unmarshal=%d/%v", len(u), e)
			for i := 0; i+1 < s.Len() && i < 4; i++ {
				fmt.Fprintf(&b, " Less(%d,%d)=%v", i, i+1, s.Less(i, i+1))
			}
		} else if c, ok := x.(stackage.Condition); ok {
			fmt.Fprintf(&b, "KW=%q Op=%v Len=%d Init=%v Paren=%v Padded=%v Encap=%v Nesting=%v CanNest=%v FIFO=%v ID=%q Cat=%q LogLevels=%s Aux=%d Valid=%v String=%q",
				c.Keyword(), c.Operator(), c.Len(), c.IsInit(), c.IsParen(), c.IsPadded(), c.IsEncap(), c.IsNesting(), c.CanNest(), c.IsFIFO(), c.ID(), c.Category(),
				c.LogLevels(), c.Auxiliary().Len(), c.Valid() == nil, c.String())
			u, e := c.Unmarshal()
			fmt.Fprintf(&b, " Unmarshal=%d/%v", len(u), e)
		}
	})
	if p != "" {
		fmt.Fprintf(&b, " PANIC(%s)", p)
	}
	return b.String()
}

func buildRich(n Node, rich bool) any {
	x := BuildWith(n, BuildOpts{})
	if !rich {
		return x
	}
	if s, ok := x.(stackage.Stack); ok {
		s.SetID("id-" + n.Kind).SetCategory("cat")
		s.SetAuxiliary(stackage.Auxiliary{"a": 1, "b": "two"})
		s.SetLogLevel(stackage.LogLevel3, stackage.UserLogLevel2)
		s.SetPushPolicy(func(...any) error { return nil })
		s.SetValidityPolicy(func(...any) error { return nil })
		if n.Kind != "BASIC" {
			s.SetPresentationPolicy(func(...any) string { return "presented" })
		}
		s.SetEqualityPolicy(func(a, b any) error { return nil })
		s.SetUnmarshaler(func(...any) ([]any, error) { return []any{"U"}, nil })
		s.SetMarshaler(func(...any) error { return nil })
		s.SetLessFunc(func(i, j int) bool { return i < j })
		s.SetMutex()
		return s
	}
	if c, ok := x.(stackage.Condition); ok {
		c.SetID("cid").SetCategory("ccat")
		c.SetAuxiliary(stackage.Auxiliary{"a": 1})
		c.SetLogLevel(stackage.LogLevel2)
		c.SetValidityPolicy(func(...any) error { return nil })
		c.SetPresentationPolicy(func(...any) string { return "presented" })
		c.SetEqualityPolicy(func(a, b any) error { return nil })
		c.SetUnmarshaler(func(...any) ([]any, error) { return []any{"U"}, nil })
		c.SetEvaluator(func(x ...any) (any, error) {
			if len(x)%2 == 1 {
				return nil, fmt.Errorf("the evaluator refuses %d argument(s)", len(x))
			}
			return 1, nil
		})
		return c
	}
	return x
}

var (
	c09Mu       sync.Mutex
	c09Mutators = map[string]bool{} // "Type.Method" observed to change a writable twin
	c09Tried    = map[string]bool{}
)

func c09Report() {
	c09Mu.Lock()
	defer c09Mu.Unlock()
	var muts, inert []string
	for k := range c09Tried {
		if c09Mutators[k] {
			muts = append(muts, k)
		} else {
			inert = append(inert, k)
		}
	}
	sort.Strings(muts)
	sort.Strings(inert)
	SetExtra("methods_observed_mutating_a_writable_twin", muts)
	SetExtra("methods_never_observed_mutating", inert)
}

func runC09(c C09Case) (st Stats, err error) {
	defer c09Report()
	isCond := c.Recv.IsCond()
	var recv, twin any
	reject := func(x any) {
		if !c.Invalid {
			return
		}
		if s, ok := x.(stackage.Stack); ok {
			s.SetValidityPolicy(func(...any) error { return fmt.Errorf("rejected") })
		} else if cd, ok := x.(stackage.Condition); ok {
			cd.SetValidityPolicy(func(...any) error { return fmt.Errorf("rejected") })
		}
	}
	if p := guard(func() {
		recv = buildRich(c.Recv, c.Rich)
		twin = buildRich(c.Recv, c.Rich)
		reject(recv)
		reject(twin)
	}); p != "" {
		return st, violf("setup/panic", "%s", p)
	}
	ms := stackMethods
	tname := "Stack"
	if isCond {
		ms = condMethods
		tname = "Condition"
	}
	// handles behind pointers (pointer-receiver methods need an addressable receiver)
	var sp, tsp *stackage.Stack
	var cp, tcp *stackage.Condition
	var origC stackage.Condition
	var origS stackage.Stack
	if isCond {
		a, b := recv.(stackage.Condition), twin.(stackage.Condition)
		cp, tcp = &a, &b
		origC = a
		a.SetReadOnly(true)
	} else {
		a, b := recv.(stackage.Stack), twin.(stackage.Stack)
		sp, tsp = &a, &b
		origS = a
		a.SetReadOnly(true)
	}
	cur := func() any {
		if isCond {
			return origC
		}
		return origS
	}
	isRO := func() bool {
		if isCond {
			return origC.IsReadOnly()
		}
		return origS.IsReadOnly()
	}
	if !isRO() {
		return st, violf(tname+".SetReadOnly", "SetReadOnly(true) did not set the flag")
	}
	// setting the flag changes nothing observable but the flag: every query answers as it does on the
	// identically built twin that was left writable
	if a, b := roAnswers(cur()), roAnswers(twin); a != b {
		return st, violf(tname+"/read-only-changes-an-answer", "a query answers differently once the read-only flag is set: %s\n  read-only: %s\n  writable : %s", diffSnap(a, b), a, b)
	}
	base := Snapshot(cur())
	baseNoErr := SnapshotNoErr(cur())

	// ---- the read-only instance as an ARGUMENT of another instance's methods, in every form a Stack /
	// Condition can be handed over (native, alias, pointer, pointer to alias), and as a nested member of
	// a writable parent whose own mutators run: nothing observable on it may change either
	if len(c.Calls) > 0 && c.Calls[0].Variant%4 != 0 {
		// (24 fresh instances per case: done for a quarter of the cases)
	} else if v := c09Foreign(func() any {
		// (a fresh read-only instance per step: a step's legitimate effect on writable descendants must
		// not be charged to the next one, nor to the calls below)
		x := buildRich(c.Recv, c.Rich)
		reject(x)
		if cc, ok := x.(stackage.Condition); ok {
			cc.SetReadOnly(true)
		} else {
			x.(stackage.Stack).SetReadOnly(true)
		}
		return x
	}, isCond, &st); v != nil {
		return st, v
	}

	for i, call := range c.Calls {
		m, ok := findMethod(ms, call.Method)
		if !ok {
			continue
		}
		st.Sub++
		key := tname + "." + m.Name
		rlen := 1
		if !isCond {
			rlen = origS.Len()
		}
		ctx := &synthCtx{Len: rlen, Variant: call.Variant, ForceAny: call.Arg}
		args, desc := synthArgs(m.Type, true, ctx)
		targs, _ := synthArgs(m.Type, true, &synthCtx{Len: rlen, Variant: call.Variant, ForceAny: call.Arg})

		// ---- measure on the writable twin whether this call is a real mutator
		mutates := false
		if m.Name != "SetReadOnly" && m.Name != "ReadOnly" {
			var trecv any
			if isCond {
				trecv = tcp
			} else {
				trecv = tsp
			}
			guard(func() {
				var tb string
				if isCond {
					tb = Snapshot(*tcp)
				} else {
					tb = Snapshot(*tsp)
				}
				callMethod(trecv, m, targs)
				var ta string
				if isCond {
					ta = Snapshot(*tcp)
				} else {
					ta = Snapshot(*tsp)
				}
				mutates = ta != tb
			})
			// rebuild the twin so every call is measured from the same state
			guard(func() {
				t2 := buildRich(c.Recv, c.Rich)
				reject(t2)
				if isCond {
					b := t2.(stackage.Condition)
					tcp = &b
				} else {
					b := t2.(stackage.Stack)
					tsp = &b
				}
			})
			c09Mu.Lock()
			c09Tried[key] = true
			if mutates {
				c09Mutators[key] = true
			}
			c09Mu.Unlock()
		}
		if mutates {
			st.NonTrivial = true
			st.Class("mutator:" + key)
		}

		// ---- the call on the read-only instance
		var r any
		if isCond {
			r = cp
		} else {
			r = sp
		}
		outs, p := callMethod(r, m, args)
		if p != "" {
			return st, violf(key+"/panic", "call %d: %s(%s) on a read-only instance panicked: %s", i, key, desc, p)
		}
		after := Snapshot(cur())

		switch m.Name {
		case "SetReadOnly", "ReadOnly":
			// documented exception: only the flag may change; set/clear/toggle semantics
			want := true
			if len(args) > 0 {
				want = args[0].Bool()
			} else {
				want = false // toggle from true
			}
			if isRO() != want {
				return st, violf(key+"/flag", "call %d: %s(%s): IsReadOnly()=%v, want %v", i, key, desc, isRO(), want)
			}
			if !want {
				st.Class("flag-cleared-and-restored")
				if isCond {
					origC.SetReadOnly(true)
				} else {
					origS.SetReadOnly(true)
				}
				after = Snapshot(cur())
			}
			if after != base {
				return st, violf(key+"/state", "call %d: %s(%s) changed more than the flag: %s", i, key, desc, diffSnap(base, after))
			}
		case "SetErr":
			if a := SnapshotNoErr(cur()); a != baseNoErr {
				return st, violf(key+"/state", "call %d: SetErr changed more than the error: %s", i, diffSnap(baseNoErr, a))
			}
			base = after
		case "Init":
			if isCond {
				// the handle was re-pointed; the old instance must be untouched
				if after != base {
					return st, violf(key+"/old-instance", "call %d: Condition.Init changed the old read-only instance: %s", i, diffSnap(base, after))
				}
				h := origC
				cp = &h
			}
		case "Free":
			if len(outs) == 1 && outs[0].IsNil() {
				return st, violf(key+"/no-error", "call %d: Free on a read-only instance returned nil", i)
			}
			zero := false
			if isCond {
				zero = cp.IsZero()
			} else {
				zero = sp.IsZero()
			}
			if zero || after != base {
				return st, violf(key+"/released", "call %d: Free on a read-only instance released or changed it", i)
			}
		default:
			if after != base {
				return st, violf(key, "call %d: %s(%s) changed a read-only instance: %s", i, key, desc, diffSnap(base, after))
			}
		}
	}

	// ---- clearing the flag restores full mutability with the state exactly as it was
	var v *Violation
	p := guard(func() {
		if isCond {
			origC.SetReadOnly(false)
			if origC.IsReadOnly() {
				v = violf(tname+".SetReadOnly/clear", "SetReadOnly(false) did not clear the flag")
				return
			}
			origC.SetReadOnly(true)
			if s := Snapshot(origC); s != base {
				v = violf(tname+"/state-after-clear", "state differs after clearing and re-setting the flag: %s", diffSnap(base, s))
				return
			}
			origC.SetReadOnly(false)
			origC.SetParen(true)
			origC.SetID("new-id")
			origC.SetKeyword("newkw")
			if !origC.IsParen() || origC.ID() != "new-id" || origC.Keyword() != "newkw" {
				v = violf(tname+"/not-mutable-after-clear", "after SetReadOnly(false) setters still have no effect")
			}
			return
		}
		origS.SetReadOnly(false)
		if origS.IsReadOnly() {
			v = violf(tname+".SetReadOnly/clear", "SetReadOnly(false) did not clear the flag")
			return
		}
		origS.SetReadOnly(true)
		if s := Snapshot(origS); s != base {
			v = violf(tname+"/state-after-clear", "state differs after clearing and re-setting the flag: %s", diffSnap(base, s))
			return
		}
		origS.SetReadOnly(false)
		n := origS.Len()
		origS.SetPushPolicy(nil)
		origS.SetNoNesting(false)
		full := origS.IsFull()
		origS.Push("pushed-after-clear")
		if !full && origS.Len() != n+1 {
			v = violf(tname+"/not-mutable-after-clear", "Push after SetReadOnly(false) had no effect")
			return
		}
		origS.SetParen(true)
		origS.SetID("new-id")
		if !origS.IsParen() || origS.ID() != "new-id" {
			v = violf(tname+"/not-mutable-after-clear", "option setters after SetReadOnly(false) had no effect")
			return
		}
		if origS.Len() > 0 {
			l := origS.Len()
			origS.Pop()
			if origS.Len() != l-1 {
				v = violf(tname+"/not-mutable-after-clear", "Pop after SetReadOnly(false) had no effect")
			}
		}
	})
	if p != "" {
		return st, violf(tname+"/after-clear/panic", "%s", p)
	}
	if v != nil {
		return st, v
	}
	sig := c.Recv.Brief() + fmt.Sprint(c.Rich, c.Invalid)
	for _, call := range c.Calls {
		sig += fmt.Sprintf("|%s#%d%s", call.Method, call.Variant, call.Arg)
	}
	st.Sig = sig
	if isCond {
		st.Class("recv:Condition")
	} else {
		st.Class("recv:" + c.Recv.Kind)
	}
	if c.Invalid {
		st.Class("recv-rejected-by-its-validity-policy")
	}
	return st, nil
}

var c09Templates = []struct {
	n    Node
	rich bool
}{
	{Node{T: "stack", Kind: "AND", Cap: 5, Paren: true, Encap: [][]string{{`"`}}, Elems: []Node{LeafN(VS("a")), {T: "stack", Kind: "OR", Elems: []Node{LeafN(VS("x")), LeafN(VI(2))}}, LeafN(VNil()), {T: "cond", KW: "k", Op: OpEq(), Expr: &Node{T: "leaf", Leaf: &Val{K: "str", S: "v"}}}}}, true},
	{Node{T: "stack", Kind: "LIST", Delim: ",", NoPad: true, Elems: []Node{LeafN(VS("a")), LeafN(VS("b")), LeafN(VS("c"))}}, false},
	{Node{T: "stack", Kind: "BASIC", FIFO: true, Mutex: true, NegIdx: true, FwdIdx: true, Elems: []Node{LeafN(VI(1)), LeafN(VI(2))}}, true},
	{Node{T: "stack", Kind: "NOT", Fold: true, LeadOnce: true, Symbol: "!"}, false},
	{Node{T: "stack", Kind: "OR", NoNest: true, Elems: []Node{LeafN(VS("only"))}}, true},
	{Node{T: "cond", KW: "kw", Op: OpEq(), Paren: true, Encap: [][]string{{`'`}}, Expr: &Node{T: "stack", Kind: "AND", Elems: []Node{LeafN(VS("e1")), LeafN(VS("e2"))}}}, true},
	{Node{T: "cond", KW: "plain", Op: OpDesc{K: "user", Text: "~=", Ctx: "c"}, Expr: &Node{T: "leaf", Leaf: &Val{K: "int", I: 7}}}, false},
}

func isIntParamMethod(name string) bool {
	for _, m := range intParamMethods {
		if m.Name == name {
			return true
		}
	}
	return false
}

func enumC09(tier Tier, yield func(C09Case)) {
	variants := 12
	if tier.Thorough {
		variants = 40
	}
	for ti, tpl := range c09Templates {
		ms := stackMethods
		if tpl.n.IsCond() {
			ms = condMethods
		}
		for _, m := range ms {
			for v := 0; v < variants; v++ {
				yield(C09Case{Recv: tpl.n, Rich: tpl.rich, Calls: []C17Call{{Method: m.Name, Variant: v}}})
				if v < 3 {
					yield(C09Case{Recv: tpl.n, Rich: tpl.rich, Invalid: true, Calls: []C17Call{{Method: m.Name, Variant: v + 3}}})
				}
			}
			if !tpl.n.IsCond() && isIntParamMethod(m.Name) {
				// every index value of the synthesis table under every combination of the index options (and LIFO/FIFO)
				for opt := 0; opt < 8; opt++ {
					n := tpl.n
					n.NegIdx, n.FwdIdx, n.FIFO = opt&1 != 0, opt&2 != 0, opt&4 != 0
					if n.NegIdx == tpl.n.NegIdx && n.FwdIdx == tpl.n.FwdIdx && n.FIFO == tpl.n.FIFO {
						continue
					}
					for v := 0; v < 14; v++ {
						yield(C09Case{Recv: n, Rich: tpl.rich, Calls: []C17Call{{Method: m.Name, Variant: v}}})
					}
				}
			}
			if anyParamMethod(m) {
				// every catalogue entry by name (thorough: all; quick: a deterministic third per template)
				for i, a := range awkwardCatalogue {
					if tier.Thorough || (i+ti)%3 == 0 {
						yield(C09Case{Recv: tpl.n, Rich: tpl.rich, Calls: []C17Call{{Method: m.Name, Variant: 1 + i%2, Arg: a.Name}}})
					}
				}
			}
		}
	}
}

var c09RecvGen = TreeGen{MaxDepth: 2, MaxWidth: 4, Budget: 12, Kinds: stackKinds,
	Leaf: func(t *rapid.T) Val { return genPrimVal(t, true, true) }, Conds: true, CondExprStack: true, NilLeaves: true, EmptyStacks: true,
	Options: true, Caps: true, IndexOpts: true, MutexOpt: true, FIFOOpt: true, Wraps: true, ZooLeaves: true, OddEncap: true, Ambient: true, Pasts: true, WideRuns: true, NoNestAfter: true}

func genC09(t *rapid.T, tier Tier) C09Case {
	c := C09Case{Rich: rapid.Bool().Draw(t, "rich"), Invalid: rapid.IntRange(0, 4).Draw(t, "invalid") == 0}
	ms := stackMethods
	if rapid.IntRange(0, 3).Draw(t, "cond") == 0 {
		g := c09RecvGen
		st := &treeState{g: &g, budget: 8}
		c.Recv = st.cond(t, 1)
		c.Recv.Wrap = WrapNative
		if c.Recv.KW == "" {
			c.Recv.KW = "kw"
		}
		ms = condMethods
	} else {
		c.Recv = c09RecvGen.Draw(t)
		c.Recv.Wrap = WrapNative // (the receiver itself is a native value; its members may be aliases / pointers)
	}
	n := rapid.IntRange(1, 8).Draw(t, "ncalls")
	for i := 0; i < n; i++ {
		c.Calls = append(c.Calls, C17Call{Method: ms[rapid.IntRange(0, len(ms)-1).Draw(t, "method")].Name, Variant: rapid.IntRange(0, 600).Draw(t, "variant")})
	}
	return c
}

func init() {
	Register(Def[C09Case]{
		ID: "C09",
		Rule: "total enumeration: every exported method of Stack/*Stack and Condition/*Condition (reflection) x 12 (thorough 40) argument variants synthesised by type x 7 receiver templates (nested content, capacity, FIFO, mutex, index options, no-nesting, encapsulation, every policy installed, aux map, ID, category, log levels); " +
			"rapid: generated receivers (trees with options/capacity/FIFO/mutex, Conditions) x programs of 1..8 reflected calls with variants 0..600. Oracle: the full snapshot (public getters + VerifDump: option bits, symbol, encapsulation, closure identities, logger identity, log-level bits, aux identity and content, slots, recursively) " +
			"is identical after every call on the read-only instance, except the flag for SetReadOnly/ReadOnly (set/clear/toggle semantics checked, state identical after restoring the flag), the error field for SetErr, the handle for Condition.Init (old instance untouched); Free must return an error and release nothing; after SetReadOnly(false) Push/Pop/SetParen/SetID work. " +
			"non-trivial = the same call with the same arguments changes the snapshot of a writable twin built from the same description (measured); distinct = (receiver, call sequence)",
		Gen:         genC09,
		Run:         runC09,
		Enum:        enumC09,
		EnumNote:    "all reflected Stack and Condition methods x 12/40 argument variants x 7 receiver templates",
		Floors:      map[string]float64{"recv:Condition": 0.1, "flag-cleared-and-restored": 0.01, "recv-rejected-by-its-validity-policy": 0.1},
		Assumptions: []string{"closures installed on the receiver are pure recorders", "a panic of the writable twin is C08's business and is ignored here"},
	})
}
