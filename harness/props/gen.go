package props

// gen.go: rapid generators for leaf values and tree descriptions.

import (
	"math"
	"unicode"

	"pgregory.net/rapid"
)

var textWords = []string{"a", "b", "cn", "Jesse", "x1", "value", "AND", "or", "condition", "NOT", "LIST", "q"}
var textUnicode = []string{"é", "ü", "世界", "😀", "naïve", "Ωmega", "日本語テキスト", "ñ", "«q»", "a·b"}
var textBlanky = []string{"two words", "tab\there", "a  b", "x \t y", "three  little   words"}
var textEdgeBlank = []string{" lead", "trail ", "  both  ", "\tt", " "}
var textPunct = []string{"(", ")", "(a)", `"`, `say "hi"`, "a,b", "k=v", "&", "!", "'"}

// genText draws a leaf text. edge controls whether leading/trailing blanks may occur.
func genText(t *rapid.T, allowEmpty, edge bool) string {
	w := rapid.IntRange(0, 99).Draw(t, "textclass")
	switch {
	case w < 40:
		return rapid.SampledFrom(textWords).Draw(t, "word")
	case w < 60:
		return rapid.SampledFrom(textUnicode).Draw(t, "uni")
	case w < 72:
		return rapid.SampledFrom(textBlanky).Draw(t, "blanky")
	case w < 80:
		return rapid.SampledFrom(textPunct).Draw(t, "punct")
	case w < 85:
		if allowEmpty {
			return ""
		}
		return "e"
	case w < 90:
		if edge {
			return rapid.SampledFrom(textEdgeBlank).Draw(t, "edge")
		}
		return "f"
	case w < 95:
		// concatenation of two pieces
		return rapid.SampledFrom(textWords).Draw(t, "w1") + rapid.SampledFrom(textUnicode).Draw(t, "u2")
	default:
		// arbitrary Unicode letters, marks, numbers, punctuation and symbols (no whitespace or control
		// characters: the package documents trimming/condensing for those), 1..6 runes
		return rapid.StringOfN(rapid.RuneFrom(nil, unicode.L, unicode.M, unicode.N, unicode.P, unicode.S), 1, 6, -1).Draw(t, "anyunicode")
	}
}

var intEdges = []int64{0, 1, -1, 7, 42, 127, -128, 255, 32767, 65535, math.MaxInt32, math.MinInt32, math.MaxInt64, math.MinInt64, math.MaxInt64 - 1, math.MinInt64 + 1, -2, 1 << 53, 1<<53 + 1, math.MaxUint32, 1 << 32}

func clampInt(k string, i int64) int64 {
	switch k {
	case "int8":
		return int64(int8(i))
	case "int16":
		return int64(int16(i))
	case "int32":
		return int64(int32(i))
	case "uint8":
		return int64(uint8(i))
	case "uint16":
		return int64(uint16(i))
	case "uint32":
		return int64(uint32(i))
	}
	// (uint / uint64: the 64 bits are kept as they are, so negative edges give values >= 2^63)
	return i
}

var floatVals = []float64{0, 1, -1, 3.14159, 0.1, 1e21, 1e-7, 2.5, -273.15, 123456789.125, math.MaxFloat64, math.SmallestNonzeroFloat64, 1e20, 1e-5, 123456789012345678, float64(math.MaxFloat32)}

// genPrimVal: text / number / bool leaf.
func genPrimVal(t *rapid.T, allowEmpty, edge bool) Val {
	w := rapid.IntRange(0, 99).Draw(t, "leafclass")
	switch {
	case w < 60:
		return VS(genText(t, allowEmpty, edge))
	case w < 80:
		k := rapid.SampledFrom([]string{"int", "int", "int8", "int16", "int32", "int64", "uint", "uint8", "uint16", "uint32", "uint64"}).Draw(t, "intkind")
		i := rapid.SampledFrom(intEdges).Draw(t, "intval")
		return Val{K: k, I: clampInt(k, i)}
	case w < 88:
		k := rapid.SampledFrom([]string{"f64", "f32"}).Draw(t, "fkind")
		f := rapid.SampledFrom(floatVals).Draw(t, "fval")
		if k == "f32" {
			f = float64(float32(f))
		}
		return Val{K: k, F: f}
	case w < 91:
		k := rapid.SampledFrom([]string{"c64", "c128"}).Draw(t, "ckind")
		return Val{K: k, F: float64(rapid.IntRange(-3, 3).Draw(t, "re")), I: int64(rapid.IntRange(-3, 3).Draw(t, "im"))}
	case w < 97:
		return Val{K: "bool", B: rapid.Bool().Draw(t, "b")}
	default:
		return Val{K: "stringer", S: "S:" + rapid.SampledFrom(textWords).Draw(t, "sw")}
	}
}

var encapPool = [][]string{{`"`}, {"(", ")"}, {"«", "»"}, {"'"}, {"[", "]"}, {"<"}}

func genEncap(t *rapid.T) [][]string {
	n := rapid.IntRange(0, 9).Draw(t, "nencap")
	switch {
	case n < 6:
		return nil
	case n < 9:
		return [][]string{rapid.SampledFrom(encapPool).Draw(t, "enc1")}
	}
	i := rapid.IntRange(0, len(encapPool)-1).Draw(t, "enc1i")
	j := rapid.IntRange(0, len(encapPool)-2).Draw(t, "enc2i")
	if j >= i {
		j++
	}
	return [][]string{encapPool[i], encapPool[j]}
}

var opPool = []OpDesc{{K: "cmp", I: 1}, {K: "cmp", I: 2}, {K: "cmp", I: 3}, {K: "cmp", I: 4}, {K: "cmp", I: 5}, {K: "cmp", I: 6},
	{K: "user", Text: "~=", Ctx: "approx"}, {K: "user", Text: ":=", Ctx: "assign"}, {K: "uslice", Text: "=~", Ctx: "match"}}

// TreeGen configures genNode.
type TreeGen struct {
	MaxDepth         int
	MaxWidth         int
	Kinds            []string // stack kinds for nested nodes
	RootKinds        []string
	Leaf             func(t *rapid.T) Val
	Conds            bool // conditions as elements
	CondExprStack    bool // condition expressions may be stacks
	CondExprCond     bool // ... or conditions
	InvalidConds     bool // some conditions lack keyword / expression
	NotAsCondExpr    bool // allow NOT kind directly as condition expression
	Options          bool // presentation options on nodes
	Caps             bool
	IndexOpts        bool
	Wraps            bool
	MutexOpt         bool
	NoNestAfter      bool // SetNoNesting(true) on a random fifth of the nodes AFTER their content is in ("never affects elements already present")
	ReadOnlyNodes    bool // SetReadOnly(true) on a random sixth of the nodes (stacks and Conditions) after assembly: neutral for every query
	RejectValidity   bool // a rejecting validity closure on a random eighth of the NESTED stack nodes (never the root)
	OddEncap         bool // some nodes get an over-long (3-string) encapsulation pattern in front of a usable one: accepted and stored, never rendered - only for checks without a renderer model
	UnmarshalFailers bool // a failing unmarshal closure on a random tenth of the NESTED nodes (stacks and Conditions)
	NoOpConds        bool // one Condition in ten was assembled piecemeal without an operator (keyword and expression present)
	DeepChains       bool // one tree in fifteen holds a chain of 9..14 (a quarter of those: 31..130) single-member stacks (paths longer than any fixed small bound)
	ZooLeaves        bool // one leaf in twelve is a value of an unusual Go type (genZooLeaf): only for checks that treat leaves as opaque
	EqPolicies       bool // an accepting or rejecting equality closure on a random tenth of the nodes
	WideRuns         bool // at most one node per tree additionally gets a run of 12..40 plain leaves (not counted against Budget)
	Pasts            bool // a random sixth of the LIFO stacks had 1..3 more values that were popped again; a random fifth of the Conditions held another expression (a Stack, a text, a Condition) before the described one
	Ambient          bool // neutral settings (identifier, category, aux, less, accepting closures, logger, mutex) on a random half of the nodes
	FIFOOpt          bool
	NilLeaves        bool
	EmptyStacks      bool
	Budget           int // max total nodes
}

// genUncomparable: a leaf whose Go type cannot be compared with == (a slice or a map): code that
// compares two `any` values directly panics on two of them.
func genUncomparable(t *rapid.T, tag int) Val {
	switch rapid.IntRange(0, 2).Draw(t, "uncomparable") {
	case 0:
		return Val{K: "slice", Elems: []Val{VS("s" + itoa(tag)), VS("t")}}
	case 1:
		return Val{K: "map", Keys: []string{"k" + itoa(tag)}, Elems: []Val{VI(int64(tag))}}
	}
	return Val{K: "slice", Elems: []Val{VI(int64(tag)), VI(2)}}
}

// genZooLeaf: leaves that are opaque to the library but awkward to handle generically: typed nil
// pointers (depth 1..3), uncomparable values (slice, map), byte arrays held by value, zero values of
// types with a String method, look-alike pointers (distinct instances with equal content).
func genZooLeaf(t *rapid.T, tag int) Val {
	switch rapid.IntRange(0, 6).Draw(t, "zoo") {
	case 0:
		return Val{K: "tnil", Depth: rapid.IntRange(1, 3).Draw(t, "tnil")}
	case 1, 2:
		return genUncomparable(t, tag)
	case 3:
		return Val{K: "array", Elems: []Val{{K: "uint8", I: 1}, {K: "uint8", I: int64(tag % 200)}}}
	case 4:
		return Val{K: "stringer", S: ""} // the zero value of a struct type with a String method
	case 5:
		return Val{K: "ptr", Depth: 1, Elems: []Val{VI(7)}} // every such leaf is a distinct pointer to an equal int
	}
	return Val{K: "ptr", Depth: 2, Elems: []Val{VS("same")}}
}

type treeState struct {
	g      *TreeGen
	budget int
	wide   bool // the one wide run has been placed
}

func (g TreeGen) Draw(t *rapid.T) Node {
	st := &treeState{g: &g, budget: g.Budget}
	if st.budget == 0 {
		st.budget = 40
	}
	kinds := g.RootKinds
	if len(kinds) == 0 {
		kinds = g.Kinds
	}
	root := st.stack(t, 1, kinds)
	if g.DeepChains && rapid.IntRange(0, 14).Draw(t, "deepchain?") == 0 {
		// leaf <- stack <- stack ... (depth 9..14), every second link through a Condition when those are allowed
		depth := rapid.IntRange(9, 14).Draw(t, "chaindepth")
		if rapid.IntRange(0, 3).Draw(t, "verydeep?") == 0 {
			// around the powers of two at which a recursion guard or a fixed table would sit
			depth = rapid.SampledFrom([]int{31, 32, 33, 34, 40, 63, 64, 65, 66, 100, 127, 128, 129, 130}).Draw(t, "verydeep")
		}
		cur := Node{T: "stack", Kind: "AND", Elems: []Node{LeafN(VS("bottom")), LeafN(VI(1))}}
		for i := 0; i < depth; i++ {
			link := cur
			if g.Conds && g.CondExprStack && i%3 == 1 {
				e := cur
				link = Node{T: "cond", KW: "k" + itoa(i), Op: OpEq(), Expr: &e}
			}
			cur = Node{T: "stack", Kind: rapid.SampledFrom([]string{"AND", "OR", "LIST"}).Draw(t, "chainkind"), Elems: []Node{LeafN(VS("side" + itoa(i))), link}}
			if g.Wraps && i%4 == 2 {
				cur.Wrap = WrapAlias
			}
		}
		at := rapid.IntRange(0, len(root.Elems)).Draw(t, "chainat")
		root.Elems = append(root.Elems[:at:at], append([]Node{cur}, root.Elems[at:]...)...)
		if root.Cap > 0 {
			root.Cap++
		}
	}
	return root
}

func (st *treeState) stackOpts(t *rapid.T, n *Node) {
	g := st.g
	if g.Options {
		bits := rapid.IntRange(0, 63).Draw(t, "optbits")
		// keep the default configuration reasonably frequent
		if rapid.IntRange(0, 3).Draw(t, "defaultopts") == 0 {
			bits = 0
		}
		n.OptForm = rapid.IntRange(0, 4).Draw(t, "optform")
		n.Paren = bits&1 != 0
		n.Fold = bits&2 != 0
		n.NoPad = bits&4 != 0
		n.LeadOnce = bits&8 != 0
		if bits&16 != 0 {
			n.Symbol = rapid.SampledFrom([]string{"&", "&&", "∧", "|", "!", "Xor", "nand", "AND", "é"}).Draw(t, "symbol")
		}
		if bits&32 != 0 {
			n.Delim = rapid.SampledFrom([]string{",", " ", "·", ";", ", "}).Draw(t, "delim")
		}
		n.Encap = genEncap(t)
		if g.OddEncap && rapid.IntRange(0, 5).Draw(t, "oddencap") == 0 {
			n.Encap = append([][]string{{"<", ">", "!"}}, n.Encap...)
			if len(n.Encap) == 1 {
				n.Encap = append(n.Encap, []string{"'"})
			}
		}
	}
	if g.Caps && rapid.IntRange(0, 5).Draw(t, "hascap") == 0 {
		n.Cap = len(n.Elems) + rapid.IntRange(0, 3).Draw(t, "capextra")
	}
	if g.IndexOpts {
		n.NegIdx = rapid.Bool().Draw(t, "negidx")
		n.FwdIdx = rapid.Bool().Draw(t, "fwdidx")
	}
	if g.MutexOpt {
		n.Mutex = rapid.IntRange(0, 2).Draw(t, "mutex") == 0
	}
	if g.FIFOOpt {
		n.FIFO = rapid.IntRange(0, 2).Draw(t, "fifo") == 0
	}
	if g.Pasts && !n.FIFO && rapid.IntRange(0, 5).Draw(t, "past?") == 0 {
		n.Past = rapid.IntRange(1, 6).Draw(t, "past")
	}
	if g.Ambient {
		n.Amb = drawAmbient(t, true)
	}
	if g.NoNestAfter {
		n.NoNest = rapid.IntRange(0, 4).Draw(t, "nonest-after") == 0
	}
	if g.EqPolicies && rapid.IntRange(0, 9).Draw(t, "eqpol?") == 0 {
		n.EqPol = rapid.IntRange(1, 2).Draw(t, "eqpol")
	}
	if g.ReadOnlyNodes {
		n.ReadOnly = rapid.IntRange(0, 5).Draw(t, "readonly-node") == 0
	}
	if g.Wraps {
		n.Wrap = rapid.IntRange(0, 6).Draw(t, "wrap")
	}
}

func (st *treeState) stack(t *rapid.T, depth int, kinds []string) Node {
	n := st.stack0(t, depth, kinds)
	if st.g.RejectValidity && depth > 1 && rapid.IntRange(0, 7).Draw(t, "validrej") == 0 {
		n.ValidRej = true
	}
	if st.g.UnmarshalFailers && depth > 1 && rapid.IntRange(0, 9).Draw(t, "umfail") == 0 {
		n.UmFail = true
	}
	return n
}

func (st *treeState) stack0(t *rapid.T, depth int, kinds []string) Node {
	g := st.g
	n := Node{T: "stack", Kind: rapid.SampledFrom(kinds).Draw(t, "kind")}
	st.budget--
	minW := 1
	if g.EmptyStacks {
		minW = 0
	}
	w := rapid.IntRange(minW, g.MaxWidth).Draw(t, "width")
	for i := 0; i < w && st.budget > 0; i++ {
		n.Elems = append(n.Elems, st.elem(t, depth+1))
	}
	if g.WideRuns && !st.wide && rapid.IntRange(0, 11).Draw(t, "wide?") == 0 {
		st.wide = true
		k := rapid.IntRange(12, 40).Draw(t, "widerun")
		at := rapid.IntRange(0, len(n.Elems)).Draw(t, "wideat")
		run := make([]Node, 0, k)
		for i := 0; i < k; i++ {
			run = append(run, LeafN(VI(int64(i))))
		}
		n.Elems = append(n.Elems[:at:at], append(run, n.Elems[at:]...)...)
	}
	st.stackOpts(t, &n)
	return n
}

func (st *treeState) elem(t *rapid.T, depth int) Node {
	g := st.g
	c := rapid.IntRange(0, 99).Draw(t, "elemclass")
	canNest := depth <= g.MaxDepth && st.budget > 2
	switch {
	case canNest && c < 30:
		return st.stack(t, depth, g.Kinds)
	case g.Conds && c < 50:
		return st.cond(t, depth)
	case g.NilLeaves && c < 56:
		st.budget--
		return LeafN(VNil())
	}
	st.budget--
	if g.ZooLeaves && rapid.IntRange(0, 11).Draw(t, "zoo?") == 0 {
		return LeafN(genZooLeaf(t, st.budget))
	}
	return LeafN(g.Leaf(t))
}

func (st *treeState) cond(t *rapid.T, depth int) Node {
	g := st.g
	st.budget--
	n := Node{T: "cond", KW: rapid.SampledFrom([]string{"cn", "person", "k", "mail", "ключ", "x y"}).Draw(t, "kw"), Op: rapid.SampledFrom(opPool).Draw(t, "op")}
	c := rapid.IntRange(0, 99).Draw(t, "exprclass")
	canNest := depth <= g.MaxDepth && st.budget > 2
	switch {
	case g.CondExprStack && canNest && c < 35:
		kinds := g.Kinds
		if !g.NotAsCondExpr {
			kinds = nil
			for _, k := range g.Kinds {
				if k != "NOT" {
					kinds = append(kinds, k)
				}
			}
		}
		e := st.stack(t, depth+1, kinds)
		n.Expr = &e
	case g.CondExprCond && canNest && c < 45:
		e := st.cond(t, depth+1)
		n.Expr = &e
	default:
		v := g.Leaf(t)
		if v.K == "str" && v.S == "" {
			v.S = "nonempty"
		}
		if v.K == "nil" {
			v = VS("nn")
		}
		e := LeafN(v)
		n.Expr = &e
	}
	if g.Pasts && rapid.IntRange(0, 4).Draw(t, "cond-past?") == 0 {
		n.Past = rapid.IntRange(1, 3).Draw(t, "cond-past")
	}
	if g.UnmarshalFailers && rapid.IntRange(0, 9).Draw(t, "cond-umfail") == 0 {
		n.UmFail = true
	}
	if g.NoOpConds && rapid.IntRange(0, 9).Draw(t, "noop-cond") == 0 {
		n.Op = OpDesc{K: "nil"}
	}
	if g.InvalidConds {
		switch rapid.IntRange(0, 15).Draw(t, "invalid") {
		case 0:
			n.KW = ""
		case 1:
			n.Expr = nil
		case 2:
			// a built-in comparison operator outside the six defined ones (zero included)
			n.Op = OpDesc{K: "cmp", I: rapid.SampledFrom([]int{0, 0, 7, 99, 255}).Draw(t, "bogusop")}
		case 3:
			n.Op = OpDesc{K: "nil"} // assembled piecemeal, SetOperator never called
		}
	}
	if g.Options {
		bits := rapid.IntRange(0, 7).Draw(t, "condopts")
		n.OptForm = rapid.IntRange(0, 4).Draw(t, "cond-optform")
		n.Paren = bits&1 != 0
		n.NoPad = bits&2 != 0
		if bits&4 != 0 {
			n.Encap = genEncap(t)
		}
	}
	if g.Wraps {
		n.Wrap = rapid.IntRange(0, 6).Draw(t, "cwrap")
	}
	if g.NoNestAfter {
		n.NoNest = rapid.IntRange(0, 4).Draw(t, "cond-nonest-after") == 0
	}
	if g.EqPolicies && rapid.IntRange(0, 9).Draw(t, "cond-eqpol?") == 0 {
		n.EqPol = rapid.IntRange(1, 2).Draw(t, "cond-eqpol")
	}
	if g.ReadOnlyNodes {
		n.ReadOnly = rapid.IntRange(0, 5).Draw(t, "cond-readonly") == 0
	}
	return n
}
