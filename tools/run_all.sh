#!/bin/sh
# run_all.sh [quick|thorough] [seed]: run every check in turn, print one line each.
tier=${1:-quick}; seed=${2:-1}
cd "$(dirname "$0")/.."
mkdir -p /tmp/scratch
for i in 01 02 03 04 05 06 07 08 09 10 11 12 13 14 15 16 17 18 19 20; do
  t0=$(date +%s)
  VERIF_SEED=$seed ./check C$i --tier $tier > /tmp/scratch/run_${tier}_${seed}_C$i.log 2>&1
  rc=$?
  echo "C$i exit=$rc $(( $(date +%s) - t0 ))s $(grep -E '^property=' /tmp/scratch/run_${tier}_${seed}_C$i.log | sed 's/^property=C.. //')"
  if [ $rc -ne 0 ]; then
    bad=1
    grep -E "VIOLATION|INCONCLUSIVE|first failure|generator health" /tmp/scratch/run_${tier}_${seed}_C$i.log | head -5
  fi
done
exit ${bad:-0}
