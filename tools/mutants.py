#!/usr/bin/env python3
"""Sensitivity self-test: apply property-breaking edits (that still compile and pass the 158
baseline tests) to /repo's working tree one at a time, run the property's quick check, expect
exit 1, and restore /repo (git reset --hard HEAD). Never commits anything.

usage: mutants.py [--list] [--no-baseline] [ID-or-name ...]
"""
import json
import os
import subprocess
import sys
import time

ROOT = os.path.dirname(os.path.dirname(os.path.abspath(__file__)))
sys.path.insert(0, os.path.join(ROOT, "mutants"))
from table import MUTANTS  # noqa: E402

ENV = dict(os.environ, GOFLAGS="-mod=mod", GOPROXY="off", GOSUMDB="off", GOTOOLCHAIN="local")


def clean():
    subprocess.run(["git", "-C", "/repo", "reset", "-q", "--hard", "HEAD"], check=True)


def main():
    args = [a for a in sys.argv[1:] if not a.startswith("--")]
    if "--list" in sys.argv:
        for m in MUTANTS:
            print(m["prop"], m["name"])
        return
    assert subprocess.run(["git", "-C", "/repo", "status", "--porcelain"], capture_output=True, text=True).stdout.strip() == "", "/repo not clean"
    results = []
    for m in MUTANTS:
        if args and m["prop"] not in args and m["name"] not in args:
            continue
        name = "%s-%s" % (m["prop"], m["name"])
        if m.get("tier") == "thorough" and "--with-thorough" not in sys.argv and not args:
            continue
        try:
            ok_apply = True
            for (fn, old, new) in m["edits"]:
                p = os.path.join("/repo", fn)
                s = open(p).read()
                if s.count(old) != 1:
                    print("SKIP  %s: pattern occurs %d times in %s" % (name, s.count(old), fn))
                    ok_apply = False
                    break
                open(p, "w").write(s.replace(old, new))
            if not ok_apply:
                results.append((name, "skip"))
                continue
            if "--no-baseline" not in sys.argv:
                b = subprocess.run(["go", "test", "-vet=off", "-count=1", "./..."], cwd="/repo", env=ENV, capture_output=True, text=True)
                if b.returncode != 0:
                    print("INVALID %s: baseline tests fail or do not compile with this edit\n%s" % (name, (b.stdout + b.stderr)[-600:]))
                    results.append((name, "invalid"))
                    continue
            t0 = time.time()
            checks = m.get("checks", [m["prop"]])
            caught = []
            for pid in checks:
                r = subprocess.run([os.path.join(ROOT, "check"), pid, "--tier", m.get("tier", "quick")], cwd=ROOT, capture_output=True, text=True,
                                   env=dict(os.environ, VERIF_REPLAY_DIR="/tmp/scratch/mutant-replays"))
                if r.returncode == 1 and "VIOLATION property=" in r.stdout:
                    caught.append(pid)
                elif r.returncode != 0:
                    print("  note: %s on %s exited %d: %s" % (pid, name, r.returncode, r.stdout[-300:].replace("\n", " | ")))
            status = "caught" if caught else "MISSED"
            print("%-7s %s by %s (%.1fs)" % (status, name, caught, time.time() - t0))
            results.append((name, status))
        finally:
            clean()
    missed = [n for n, s in results if s == "MISSED"]
    print("summary: %d caught, %d missed, %d invalid/skipped" % (
        sum(1 for _, s in results if s == "caught"), len(missed), sum(1 for _, s in results if s in ("invalid", "skip"))))
    json.dump(results, open(os.path.join(ROOT, "mutants", "last_run.json"), "w"), indent=1)
    sys.exit(1 if missed else 0)


if __name__ == "__main__":
    main()
