#!/usr/bin/env python3
"""validate_seed.py ID [--src /tmp/wt/ID] [--all]

Takes an independently written property-breaking change from a scratch worktree (uncommitted edits +
seeded_demo_test.go + SEEDED.md), confirms in a *fresh* scratch worktree that (1) the baseline suite passes with
it, (2) the demonstration fails with it, (3) the demonstration passes without it; stores it under
/verif/seeded/<ID>/ (patch.diff, demonstration, SEEDED.md, meta.json); then applies the patch to /repo's working
tree, runs the checks (the property's own quick check; with --all every quick check; thorough for the property
if quick misses) and undoes the patch (git -C /repo checkout -- .). Nothing is ever committed to /repo.
"""
import json
import os
import shutil
import subprocess
import sys
import time

ROOT = os.path.dirname(os.path.dirname(os.path.abspath(__file__)))
ENV = dict(os.environ, GOFLAGS="-mod=mod", GOPROXY="off", GOSUMDB="off", GOTOOLCHAIN="local")


def run(cmd, cwd=None, inp=None, env=ENV, timeout=3600):
    p = subprocess.run(cmd, cwd=cwd, input=inp, capture_output=True, text=True, env=env, timeout=timeout)
    return p.returncode, p.stdout + p.stderr


def main():
    args = sys.argv[1:]
    sid = args[0]
    src = "/tmp/wt/" + sid
    if "--src" in args:
        src = args[args.index("--src") + 1]
    prop = sid.split("-")[0]
    run_all = "--all" in args
    out = os.path.join(ROOT, "seeded", sid)
    os.makedirs(out, exist_ok=True)

    stored = not os.path.isdir(src)  # the author's worktree is gone: re-validate the stored copy
    if not stored:
        rc, diff = run(["git", "diff", "HEAD", "--", "*.go"], cwd=src)
        if not diff.strip():
            print("no library change found in", src)
            sys.exit(2)
        open(os.path.join(out, "patch.diff"), "w").write(diff)
        for f in ("seeded_demo_test.go", "SEEDED.md"):
            if os.path.exists(os.path.join(src, f)):
                shutil.copy(os.path.join(src, f), os.path.join(out, f if f != "seeded_demo_test.go" else "seeded_demo_test.go.txt"))
    elif not os.path.exists(os.path.join(out, "patch.diff")):
        print("neither", src, "nor a stored patch exists")
        sys.exit(2)
    try:
        if "disposition" in json.load(open(os.path.join(out, "meta.json"))):
            print(sid, "has a recorded disposition (not kept as a seed): skipped")
            return
    except Exception:
        pass

    # ---- independent confirmation in a fresh worktree of /repo's HEAD
    vdir = "/tmp/wt/verify-" + sid
    run(["git", "-C", "/repo", "worktree", "remove", "--force", vdir])
    rc, o = run(["git", "-C", "/repo", "worktree", "add", "-q", "--detach", vdir, "HEAD"])
    meta = {"id": sid, "property": prop, "ran": []}
    try:  # annotations written by hand survive a re-validation
        prev = json.load(open(os.path.join(out, "meta.json")))
        for k in ("summary", "first_validation", "disposition", "strengthening", "note"):
            if k in prev:
                meta[k] = prev[k]
    except Exception:
        pass
    try:
        rc, o = run(["git", "apply", os.path.join(out, "patch.diff")], cwd=vdir)
        if rc != 0:
            print("patch does not apply to HEAD:", o[-400:])
            sys.exit(2)
        rc1, o1 = run(["go", "test", "-vet=off", "-count=1", "./..."], cwd=vdir)
        meta["ran"].append({"cmd": "go test -vet=off -count=1 ./...  (patched, without the demonstration)", "exit": rc1})
        shutil.copy(os.path.join(out, "seeded_demo_test.go.txt"), os.path.join(vdir, "seeded_demo_test.go"))
        rc2, o2 = run(["go", "test", "-vet=off", "-count=1", "-run", "TestSeededDemo$", "."], cwd=vdir)
        meta["ran"].append({"cmd": "go test -run TestSeededDemo$ .  (patched)", "exit": rc2, "tail": o2[-600:]})
        run(["git", "apply", "-R", os.path.join(out, "patch.diff")], cwd=vdir)
        rc3, o3 = run(["go", "test", "-vet=off", "-count=1", "-run", "TestSeededDemo$", "."], cwd=vdir)
        meta["ran"].append({"cmd": "go test -run TestSeededDemo$ .  (unpatched)", "exit": rc3})
        confirmed = rc1 == 0 and rc2 != 0 and rc3 == 0
        meta["confirmed"] = confirmed
        print("%s: suite-with-patch=%s demo-with-patch=%s demo-without=%s => %s" % (
            sid, "pass" if rc1 == 0 else "FAIL", "fail" if rc2 != 0 else "PASS(!)", "pass" if rc3 == 0 else "FAIL(!)",
            "CONFIRMED" if confirmed else "REJECTED"))
        if not confirmed:
            if rc1 != 0:
                print(o1[-800:])
            json.dump(meta, open(os.path.join(out, "meta.json"), "w"), indent=1)
            sys.exit(3)
    finally:
        run(["git", "-C", "/repo", "worktree", "remove", "--force", vdir])
        shutil.rmtree(vdir, ignore_errors=True)

    # ---- run our checks against it
    st = subprocess.run(["git", "-C", "/repo", "status", "--porcelain"], capture_output=True, text=True).stdout.strip()
    assert st == "", "/repo not clean: " + st
    results = {}
    try:
        rc, o = run(["git", "-C", "/repo", "apply", os.path.join(out, "patch.diff")])
        assert rc == 0, o
        props = [prop]
        if run_all:
            props += ["C%02d" % i for i in range(1, 21) if "C%02d" % i != prop]
        for pid in props:
            t0 = time.time()
            rc, o = run([os.path.join(ROOT, "check"), pid, "--tier", "quick"], cwd=ROOT,
                        env=dict(os.environ, VERIF_REPLAY_DIR="/tmp/scratch/seed-replays/" + sid))
            results[pid] = {"tier": "quick", "exit": rc, "s": round(time.time() - t0, 1)}
            if rc == 1:
                for line in o.splitlines():
                    if line.startswith("first failure:"):
                        results[pid]["first_failure"] = line[:400]
            print("   %s quick exit=%d (%.0fs)" % (pid, rc, time.time() - t0))
        if results[prop]["exit"] != 1:
            t0 = time.time()
            rc, o = run([os.path.join(ROOT, "check"), prop, "--tier", "thorough"], cwd=ROOT,
                        env=dict(os.environ, VERIF_REPLAY_DIR="/tmp/scratch/seed-replays/" + sid, VERIF_NO_FUZZ=""))
            results[prop + ":thorough"] = {"tier": "thorough", "exit": rc, "s": round(time.time() - t0, 1)}
            print("   %s thorough exit=%d (%.0fs)" % (prop, rc, time.time() - t0))
    finally:
        subprocess.run(["git", "-C", "/repo", "checkout", "--", "."])
        subprocess.run(["git", "-C", "/repo", "clean", "-fdq"])
    meta["checks"] = results
    meta["caught_by"] = sorted(k for k, v in results.items() if v["exit"] == 1)
    sd = os.path.join(src, "SEEDED.md")
    if os.path.exists(sd):
        meta["needs_to_manifest"] = "see SEEDED.md (written by the independent author)"
    json.dump(meta, open(os.path.join(out, "meta.json"), "w"), indent=1)
    print("%s caught by: %s" % (sid, meta["caught_by"] or "NOTHING"))


if __name__ == "__main__":
    main()
