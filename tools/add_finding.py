#!/usr/bin/env python3
"""add_finding.py PROPERTY KEY STATUS COMMIT WHAT [REPLAY-JSON-CASE-FILE]
Appends an entry to known_findings.json (development-time tool; checks never write that file)."""
import json, sys, os
root = os.path.dirname(os.path.dirname(os.path.abspath(__file__)))
path = os.path.join(root, "known_findings.json")
doc = json.load(open(path))
prop, key, status, commit, what = sys.argv[1:6]
replay = sys.argv[6] if len(sys.argv) > 6 else ""
if status == "fixed":
    what = "fixed: property=%s %s %s" % (prop, commit, what)
e = {"property": prop, "key": key, "status": status, "what": what}
if commit and commit != "-":
    e["commit"] = commit
if replay:
    e["replay"] = replay
doc["findings"] = [f for f in doc["findings"] if not (f["property"] == prop and f["key"] == key)] + [e]
json.dump(doc, open(path, "w"), indent=1)
open(path, "a").write("\n")
print("added", prop, key, status)
