#!/bin/sh
# Offline setup: pre-build the harness test binaries from files on disk only.
set -e
export GOFLAGS=-mod=mod GOPROXY=off GOSUMDB=off GOTOOLCHAIN=local
cd "$(dirname "$0")/../harness"
mkdir -p ../.build ../evidence ../replays
go test -c -tags verif -o ../.build/props.test ./props
go test -c -race -tags verif -o ../.build/props-race.test ./props
echo setup ok
