#!/usr/bin/env python3
"""Regenerates /verif/MANIFEST.json from the table below (keeps it valid at all times)."""
import json
import os
import subprocess

ROOT = os.path.dirname(os.path.dirname(os.path.abspath(__file__)))

BASELINE_OFF = "cd /repo && GOFLAGS=-mod=mod GOPROXY=off GOSUMDB=off GOTOOLCHAIN=local go test -vet=off -count=1 -timeout 25m ./..."

# id -> (technique, level text, level note, design ref)
CHECKS = {}


def add(pid, technique, text, note):
    CHECKS[pid] = dict(technique=technique, text=text, note=note)


add("C01", "model-based stateful property testing (rapid) against an ordered-list reference model + bounded-exhaustive enumeration of short programs",
    "Generated operation histories (and every program up to length 3/4 over a 13-op alphabet on 40 configurations) are executed on the real Stack and on an ordered-list model; Len, Index of every position, Front, Back, IsEmpty and each call's return values are compared after every step. Exploration: holds on everything generated, complete only for the enumerated short programs.",
    "Trusted: the 80-line list model, rapid's generators/shrinker. Element values are tagged ints/strings. Front/Back/Remove on nil slots are compared leniently where the docs are silent.")

add("C03", "model-based stateful property testing (rapid) steered around the capacity boundary, list model with capacity",
    "Generated growth/shrink histories (push batches, fill-to-boundary with surplus, insert, transfer-into, marshal-into, pop, remove, reset) for capacities 1..6 (thorough 1..12) and the capacity-less constructor forms; after every step Len<=k, Cap/Avail/IsFull consistency and content equal to the model. Exploration only.",
    "Trusted: list model, rapid. Transfer-into is only required to stay within capacity here (its result is C15).")
add("C13", "model-based stateful property testing (rapid): ordered list + no-nesting flag, identity comparison of stored instances",
    "Generated push batches mixing Stacks, aliases, pointers to aliases, Conditions, primitives and nil, interleaved with SetNoNesting(true/false/toggle), option noise, Pop/Remove, on Stacks of every kind and on Conditions; Len/Index*, CanNest and IsNesting compared with the model after every step. Exploration only.",
    "Trusted: the model's definition of stack-like (Stack, alias, pointer to either). No push policy installed.")
add("C14", "recorded-closure call logs and results vs a policy model (rapid-generated predicate tables and install/remove sequences)",
    "Push policies defined by arbitrary accept/reject tables record every consultation; the log, stored content and Err() must equal the model's for every batch and capacity; install/remove sequences of the other closures are followed by every observation (Valid, String, IsEqual, Marshal, Unmarshal, Evaluate) compared with the closure's result or the built-in behaviour. Exploration only.",
    "Trusted: closures are pure recorders; built-in behaviour is checked on a fixed two-element probe content (the general grammar is C02/C04/C05).")
add("C15", "bounded-exhaustive grid enumeration + rapid-generated larger cells, snapshot-unchanged oracle through the VerifDump hook",
    "Every cell of (source length 0..6, destination length 0..6, capacity none/len+0..7, LIFO/FIFO, nil elements, 12 destination forms, no-nesting/policy filters) is executed; source snapshot must be identical, a true result requires old++source, impossible transfers require false with an identical destination snapshot. Complete for the grid, exploration beyond it.",
    "Trusted: VerifDump hook (reads only), snapshot rendering. A refusal when everything fits is accepted (statement constrains only a true result).")

add("C02", "generated expression trees vs an independent canonical renderer over the tree description (pattern match), plus coverage-guided native fuzzing of the same oracle",
    "rapid-generated trees with every per-node option combination and Unicode/blank/empty leaves are rendered by the real String() and by a ~150-line reference renderer written from the statement; results must match (optional blank only at documented open positions), be idempotent and equal fmt %s. Thorough adds 16 shards, deeper trees and 90 s of native fuzzing through rapid.MakeFuzz. Exploration only.",
    "Trusted: the reference renderer (render.go) and its lenient positions; fmt for number formatting. Excluded inputs are listed in the evidence assumptions.")

add("C06", "model-based stateful property testing (rapid) of setter histories against a three-field Condition model",
    "Generated Cond/Init starts followed by up to 25 setter calls with accepted and rejected arguments (nil/empty/bogus operators, nil/empty expressions, stacks under no-nesting, expressions under error); after every step Keyword/Operator/Expression, Err, Valid, String (canonical text, gated by validity) and option getters are compared with the model. Exploration only.",
    "Trusted: the acceptance rules as written in the statement; reference renderer for stack expressions. No policies installed.")

add("C04", "round-trip property testing (rapid): reference unmarshal over the tree description, Marshal reconstruction walk, second unmarshal, IsEqual; native fuzzing of the same oracle",
    "Generated trees of all five kinds (empty stacks, nil leaves, Conditions with primitive/Stack/Condition expressions, capacity/fold on some nodes): Unmarshal must equal the reference expansion, Marshal of it into a zero Stack must rebuild the same kinds/order/leaves/Condition parts at every position, re-unmarshalling must deep-equal the first slice, IsEqual must hold both ways when no capacity/fold is involved, and the returned slice must not alias the stack. Exploration only.",
    "Trusted: the reference expansion (written from the statement). A Condition used as a Condition's expression may be passed through as-is (documented by Condition.Unmarshal).")
add("C05", "build-twice / single-point-mutation metamorphic property testing (rapid) + native fuzzing",
    "For generated descriptions with primitive, pointer (depth 1-3), slice/array/map/struct leaves: two independent builds must be IsEqual in both directions; a copy with exactly one point mutation (any leaf, any container position, map key, struct field, keyword, operator, kind, capacity, sibling swap, add/drop) must be rejected in both directions; no panic. Exploration only.",
    "Trusted: the mutation engine produces a real difference (values chosen to differ after type clamping). Excluded: NaN, typed nil pointers, nested containers, funcs/chans, unexported-field mutations.")
add("C07", "differential property testing (rapid): Traverse vs a stepwise Index descent reference, structured + random + all short paths",
    "For generated trees (all kinds, nil slots, Conditions with/without stack expressions, aliases, index options) every generated path - and all paths up to length 3 over [-1,width+1] for a quarter of the small trees - is given to Traverse and to a reference that uses only Index/ConvertStack/ConvertCondition/Expression; value (by underlying identity) and flag must agree. Exploration; exhaustive only for the short-path sub-space of the sampled trees.",
    "Trusted: Index (decided by C01/C08), the converters. Zero-valued Stack elements are C08's domain.")

add("C12", "differential property testing (rapid): one description built all-native vs built under a generated alias/pointer wrap assignment; converter probes",
    "The wrap assignment must be unobservable: String, IsEqual (both directions and with wrapped arguments), Unmarshal, Traverse on generated paths, IsNesting/Condition.Len/Condition.String at every node, Transfer and Defrag are compared between the aliased and the native build of the same generated description; ConvertStack/ConvertCondition are probed with 13 positive and 19 negative forms. Exploration only.",
    "Trusted: the builder producing structurally identical trees; alias types declared as the README prescribes (with and without a wrapped String).")
add("C16", "structured generation (rapid) and coverage-guided native fuzzing of Marshal inputs with a semantic oracle inside the target",
    "Generated []any trees with hostile constructs (empty/single-element envelopes, CONDITION rows with missing/surplus/wrongly typed fields, non-operators, typed nils, zero Stacks, mis-cased labels) are marshalled into zero, initialised, capacity-limited and read-only receivers: no panic, nil error implies an initialised receiver, follow-up queries return, and on the well-formed subset the decoded structure matches the input entry by entry. Thorough adds 120 s of native fuzzing over the same generator via rapid.MakeFuzz. Exploration only.",
    "Trusted: the well-formedness predicate and the entry-by-entry matcher. A non-string first element may be rejected or stored (docs silent).")

add("C19", "bounded-exhaustive enumeration of nil patterns + rapid-generated long/nested patterns, layered oracle with the known defect recognised by a port of the shipped algorithm",
    "Every nil/non-nil pattern up to length 10 (thorough 12) x 6 scan limits x 4 index-option settings, plus generated patterns up to length 60/200 nested in Stacks and Condition expressions: L0 (no panic, survivors are an order-preserving selection, no growth, configuration and nil-free trees untouched) is always strict; the full property (L1) is decided per case, and an L1 failure is accepted only when the real result equals exactly what the listed, test-pinned shipped algorithm yields (KNOWN-FINDING); any other result is a VIOLATION. Exhaustive for the enumerated patterns.",
    "Trusted: the literal port of the shipped defragmentation in c19.go (used only to recognise the known finding). TestDefrag_experimental_001 pins the lossy behaviour, so the defect is recorded, not repaired.")
add("C20", "property testing (rapid) with before/after structural invariants (leaf sequence, confluent normal form, removed-instances-were-redundant-wrappers) + lock-ownership tracking via the verifPoint hook + native fuzzing",
    "Generated trees biased to single-child chains with every mix of kinds, parenthetical flags, Conditions holding stacks, aliases, nil elements and mutex-enabled nodes are revealed; two reference walks through the public accessors before/after must give the same leaf/Condition sequence and the same fully-unwrapped form; only redundant wrappers may disappear; nothing appears; no panic; a lock requested while held (self-deadlock) or left held is detected deterministically through the hook. Exploration only.",
    "Trusted: the walker and normal-form computation in c20.go; verifPoint hook events. Acyclic trees without shared instances.")

add("C09", "reflection-enumerated method set x synthesised arguments on read-only receivers; snapshot-unchanged oracle (public getters + VerifDump); writable-twin measurement of non-triviality; rapid-generated call programs",
    "Every exported method of Stack and Condition (found by reflection, so methods added later are included) is called with 12 (thorough 40) argument variants on 7 richly configured read-only receivers, and in generated programs of up to 8 calls on generated receivers; the full snapshot must be identical after every call apart from the documented exceptions (flag, SetErr, Condition.Init handle), Free must fail, and clearing the flag must restore mutability with identical state. Which calls are real mutators is measured on a writable twin. Total for the enumerated method set, exploration beyond.",
    "Trusted: VerifDump hook (reads only); closures installed on receivers are pure recorders; argument synthesis by parameter type (novel parameter types fall back to zero values).")
add("C17", "reflection/parser-enumerated API on inert receivers (total enumeration) + rapid-generated call sequences, Free and Reset cases",
    "Every exported method of Stack, Condition and Auxiliary x 8 argument variants x 6 inert receiver states, and every package-level function (table generated from /repo's sources) x 24 variants: no panic, zero results by type, the instance stays zero (except Marshal / Condition.Init); Free zeroes writable handles and refuses read-only ones; Reset empties stacks holding nil elements while keeping the configuration. Total for the enumerated API, exploration for sequences.",
    "Trusted: reflection method sets; go/parser table of package-level functions; strings and Is* predicates are not asserted on inert receivers; constructor capacities are kept small (allocation limits are not the property).")

add("C08", "bounded-exhaustive index grid + exhaustive awkward-value catalogue over reflected methods + rapid-generated call sequences; snapshot-unchanged and list-model oracles; full follow-up query set",
    "Every int-taking Stack method x boundary indices {MinInt.., -Len-1..Len+1, ..MaxInt} (all pairs for two-index methods) x lengths 0..4 x nil slot x index options x capacity, and every any/Operator-taking Stack and Condition method x a 65-entry catalogue of awkward values: no panic; unaddressed indices report failure with an identical snapshot; addressed ones act per the list model; afterwards the whole query and mutator set still works. Exhaustive for the grid and the single-call catalogue; exploration for sequences.",
    "Trusted: list model, addressing rule of the statement, VerifDump snapshot. Replace/Swap under index options are compared leniently (undocumented).")
add("C18", "bounded-exhaustive enumeration of short option-setter sequences from all 256 option states + rapid-generated long mixed sequences, against a record model; raw bits read through VerifDump and confirmed behaviourally",
    "All {set,clear,toggle} x reflected tri-state setters from every initial option state, all length-2 (and length-3 from selected/all states) sequences, plus generated 5..40-step sequences mixed with ID/category/delimiter/symbol/encapsulation/auxiliary/log-level/FIFO setters and content edits: raw option bits, getters, stored settings, content, canonical String() and Index(-1)/Index(Len+5) behaviour must match the model after every step. Exhaustive for the enumerated sequences.",
    "Trusted: record model, reference renderer, VerifDump. UnsetLogLevel(all) outcome left open (docs silent).")

add("C10", "harness-owned schedule enumeration (cooperative scheduler on the verifPoint hook) + brute-force linearizability against the list model; free-running parallel executions under the race detector",
    "(A) every schedule, at lock-acquisition and operation-boundary granularity, of the enumerated 2-goroutine mutator programs on lengths 0..2 (thorough: all two-op pairs and 3x1), plus rapid-generated programs/schedules for 2-3 goroutines x 1-3 mutators: no panic, no self-deadlock/deadlock/leaked lock (deterministic, from lock ownership events), content changes only while the lock is held, configuration intact, capacity respected, nothing fabricated or duplicated, and some program-order-consistent sequential order reproduces every return value and the final content. (B) the same generated programs free-running on parallel goroutines under -race: same history oracle; race reports are keyed (read site / write-write pair) and compared with the listed known finding. Exhaustive for the enumerated schedules; sampled otherwise.",
    "Trusted: scheduler and linearizability checker in c10.go; verifPoint hook events; list model. Interleavings finer than lock acquisition are only sampled by the free-running part; the race detector never proves absence. Known finding: lock-free read sites of the public wrappers (data race by the memory model), recorded not repaired.")
add("C11", "snapshot-before/after per query over the reflected query set (enumeration + rapid programs) and parallel query programs under the race detector",
    "Every classified query (named in the property, Is*/Can*, remaining niladic getters; classification by a declared mutator/exposer list, unclassified methods reported) x 24 argument variants on 5 richly configured templates and all their nested nodes, plus generated trees x programs of 5..40 queries: the full recursive snapshot is identical after every query, repeated queries agree, the Unmarshal result does not alias the structure. Parallel: 8..16 goroutines x 3..8 queries x 3 rounds on one shared structure (all cases of the -race stage): answers equal the isolated answers, snapshot unchanged, no race report.",
    "Trusted: VerifDump snapshot; recorder closures are pure and goroutine-safe; the race detector samples executions only.")

NOT_YET = {}

ALL = ["C%02d" % i for i in range(1, 21)]


def main():
    commits = subprocess.run(["git", "-C", "/repo", "log", "--format=%H", "--grep=^verif:"], capture_output=True, text=True).stdout.split()
    checks = []
    for pid in ALL:
        if pid not in CHECKS:
            continue
        c = CHECKS[pid]
        checks.append({
            "property_id": pid,
            "quick_cmd": "./check %s --tier quick" % pid,
            "thorough_cmd": "./check %s --tier thorough" % pid,
            "evidence_file": "/verif/evidence/%s.json" % pid,
            "replay_cmd_template": "./check %s --replay {path}" % pid,
            "engine": "props",
            "level_claimed": {"category": "exploration", "text": c["text"], "design_ref": "DESIGN.md section 3, " + pid},
            "level_note": c["note"],
            "technique": c["technique"],
        })
    na = []
    for pid in ALL:
        if pid not in CHECKS:
            na.append({"property_id": pid, "reason": NOT_YET.get(pid, "check under construction in this session; not yet claimed (the technique applies, see DESIGN.md section 3)")})
    m = {
        "version": 1,
        "setup_cmd": "cd /verif && ./tools/setup.sh",
        "hooks": {
            "guard": "verif",
            "enable": "go test -tags verif (the harness module /verif/harness replaces github.com/JesseCoretta/go-stackage with /repo and is always built with -tags verif)",
            "baseline_off_cmd": BASELINE_OFF,
            "source_commits": commits,
            "add_only": True,
        },
        "engines": [{
            "name": "props",
            "path": "/verif/harness",
            "serves_properties": [c["property_id"] for c in checks],
            "kind_free_text": "Go test binary: pgregory.net/rapid v1.3.0 generators + bounded-exhaustive enumerators + native go fuzz targets, one pure run function per property over a JSON-serialisable case; driver /verif/check (python3) builds it from /repo's working tree with -tags verif, shards it, merges evidence",
        }],
        "checks": checks,
        "notes": "Exit codes: 0 held, 1 with VIOLATION line, 2 inconclusive/infrastructure. VERIF_SEED selects the rapid seed; enumerations are total and ignore it. Known findings: /verif/known_findings.json.",
        "not_applicable": na,
    }
    with open(os.path.join(ROOT, "MANIFEST.json"), "w") as f:
        json.dump(m, f, indent=1)
        f.write("\n")
    print("MANIFEST.json: %d checks, %d not_applicable" % (len(checks), len(na)))


if __name__ == "__main__":
    main()
