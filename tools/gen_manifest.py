#!/usr/bin/env python3
"""Regenerates /verif/MANIFEST.json from the table below (keeps it valid at all times)."""
import json
import os
import subprocess

ROOT = os.path.dirname(os.path.dirname(os.path.abspath(__file__)))

BASELINE_OFF = "cd /repo && GOFLAGS=-mod=mod GOPROXY=off GOSUMDB=off GOTOOLCHAIN=local go test -vet=off -count=1 -timeout 25m ./..."

# id -> (technique, level text, level note, design ref)
CHECKS = {}


def add(pid, technique, text, note):
    CHECKS[pid] = dict(technique=technique, text=text, note=note)


add("C01", "model-based stateful property testing (rapid) against an ordered-list reference model + bounded-exhaustive enumeration of short programs",
    "Generated operation histories (and every program up to length 3/4 over a 13-op alphabet on 40 configurations) are executed on the real Stack and on an ordered-list model; Len, Index of every position, Front, Back, IsEmpty and each call's return values are compared after every step. Exploration: holds on everything generated, complete only for the enumerated short programs.",
    "Trusted: the 80-line list model, rapid's generators/shrinker. Element values are tagged ints/strings. Front/Back/Remove on nil slots are compared leniently where the docs are silent.")

NOT_YET = {}

ALL = ["C%02d" % i for i in range(1, 21)]


def main():
    commits = subprocess.run(["git", "-C", "/repo", "log", "--format=%H", "--grep=^verif:"], capture_output=True, text=True).stdout.split()
    checks = []
    for pid in ALL:
        if pid not in CHECKS:
            continue
        c = CHECKS[pid]
        checks.append({
            "property_id": pid,
            "quick_cmd": "./check %s --tier quick" % pid,
            "thorough_cmd": "./check %s --tier thorough" % pid,
            "evidence_file": "/verif/evidence/%s.json" % pid,
            "replay_cmd_template": "./check %s --replay {path}" % pid,
            "engine": "props",
            "level_claimed": {"category": "exploration", "text": c["text"], "design_ref": "DESIGN.md section 3, " + pid},
            "level_note": c["note"],
            "technique": c["technique"],
        })
    na = []
    for pid in ALL:
        if pid not in CHECKS:
            na.append({"property_id": pid, "reason": NOT_YET.get(pid, "check under construction in this session; not yet claimed (the technique applies, see DESIGN.md section 3)")})
    m = {
        "version": 1,
        "setup_cmd": "cd /verif && ./tools/setup.sh",
        "hooks": {
            "guard": "verif",
            "enable": "go test -tags verif (the harness module /verif/harness replaces github.com/JesseCoretta/go-stackage with /repo and is always built with -tags verif)",
            "baseline_off_cmd": BASELINE_OFF,
            "source_commits": commits,
            "add_only": True,
        },
        "engines": [{
            "name": "props",
            "path": "/verif/harness",
            "serves_properties": [c["property_id"] for c in checks],
            "kind_free_text": "Go test binary: pgregory.net/rapid v1.3.0 generators + bounded-exhaustive enumerators + native go fuzz targets, one pure run function per property over a JSON-serialisable case; driver /verif/check (python3) builds it from /repo's working tree with -tags verif, shards it, merges evidence",
        }],
        "checks": checks,
        "notes": "Exit codes: 0 held, 1 with VIOLATION line, 2 inconclusive/infrastructure. VERIF_SEED selects the rapid seed; enumerations are total and ignore it. Known findings: /verif/known_findings.json.",
        "not_applicable": na,
    }
    with open(os.path.join(ROOT, "MANIFEST.json"), "w") as f:
        json.dump(m, f, indent=1)
        f.write("\n")
    print("MANIFEST.json: %d checks, %d not_applicable" % (len(checks), len(na)))


if __name__ == "__main__":
    main()
