#!/bin/sh
# try_seed.sh <seed-id> <property...>: apply seeded/<seed-id>/patch.diff to /repo's working tree, run the quick
# checks named, restore /repo. (Development aid; tools/validate_seed.py is the full validation.)
sid=$1; shift
cd "$(dirname "$0")/.."
[ -z "$(git -C /repo status --porcelain)" ] || { echo "/repo not clean"; exit 2; }
git -C /repo apply "$(pwd)/seeded/$sid/patch.diff" || exit 2
for p in "$@"; do
  VERIF_REPLAY_DIR=/tmp/scratch/try-replays timeout 900 ./check $p 2>&1 | grep -E "^property=|VIOLATION|first failure|generator health" | cut -c1-500
done
git -C /repo checkout -- . ; git -C /repo status --porcelain
