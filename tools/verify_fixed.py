#!/usr/bin/env python3
"""For every 'fixed' finding with a commit and a replay file: revert that commit in /repo's
working tree (not committed), run the replay, expect a VIOLATION, and restore /repo.
Development-time sanity tool: shows each replay case really fails without its fix."""
import json, os, subprocess, sys
root = os.path.dirname(os.path.dirname(os.path.abspath(__file__)))
doc = json.load(open(os.path.join(root, "known_findings.json")))
assert subprocess.run(["git", "-C", "/repo", "status", "--porcelain"], capture_output=True, text=True).stdout.strip() == "", "/repo not clean"
only = sys.argv[1:]
bad = 0
for f in doc["findings"]:
    if f.get("status") != "fixed" or not f.get("replay") or not f.get("commit"):
        continue
    if only and f["property"] not in only and f["key"] not in only:
        continue
    diff = subprocess.run(["git", "-C", "/repo", "diff", f["commit"] + "^", f["commit"]], capture_output=True, text=True).stdout
    try:
        p = subprocess.run(["git", "-C", "/repo", "apply", "-R", "--3way"], input=diff, capture_output=True, text=True)
        if p.returncode != 0:
            # fall back to the state of the touched files just before that commit (later fixes to them are lost too)
            subprocess.run(["git", "-C", "/repo", "reset", "-q", "--hard", "HEAD"])
            files = subprocess.run(["git", "-C", "/repo", "diff", "--name-only", f["commit"] + "^", f["commit"]], capture_output=True, text=True).stdout.split()
            subprocess.run(["git", "-C", "/repo", "checkout", f["commit"] + "^", "--"] + files, check=True)
        r = subprocess.run([os.path.join(root, "check"), f["property"], "--replay", os.path.join(root, f["replay"])], capture_output=True, text=True, cwd=root)
        okk = r.returncode == 1 and "VIOLATION" in r.stdout
        print("%s %s %s (without %s: exit %d)" % ("OK   " if okk else "WEAK ", f["property"], f["key"], f["commit"], r.returncode))
        if not okk:
            bad += 1
            print(r.stdout[-800:])
    finally:
        subprocess.run(["git", "-C", "/repo", "reset", "-q", "--hard", "HEAD"])
sys.exit(1 if bad else 0)
