#!/usr/bin/env python3
"""mk_seed_round.py <round-number>: creates the scratch worktrees /tmp/wt/C??-r<N> (detached checkouts of /repo HEAD) and the
prompt files /tmp/wt/C??-r<N>.prompt.txt for one more round of independent seeded changes. Each prompt holds only the text
of one property, the rules (seeded/PROMPT.txt) and one line per change already made for that property. Nothing from /verif
beyond those summaries is handed over; the sub-agents are told not to read /verif or /repo."""
import json, os, subprocess, sys, glob
rnd = int(sys.argv[1])
root = os.path.dirname(os.path.dirname(os.path.abspath(__file__)))
props = {}
for l in open(os.path.join(root, "properties.jsonl")):
    p = json.loads(l)
    props[p["id"]] = p
tmpl = open(os.path.join(root, "seeded", "PROMPT.txt")).read()
tmpl = tmpl[:tmpl.index("ALREADY TAKEN")]
os.makedirs("/tmp/wt", exist_ok=True)
for n in range(1, 21):
    pid = "C%02d" % n
    wt = "/tmp/wt/%s-r%d" % (pid, rnd)
    subprocess.run(["git", "-C", "/repo", "worktree", "add", "--detach", "-f", wt, "HEAD"], check=True, capture_output=True)
    p = props[pid]
    ptxt = "Property %s: %s\n\nStatement: %s\n\nQuantified over: %s\n\n\n" % (pid, p["title"], p["statement"], p["quantifier"].get("text", p["quantifier"]) if isinstance(p["quantifier"], dict) else p["quantifier"])
    taken = []
    for mp in sorted(glob.glob(os.path.join(root, "seeded", pid + "*", "meta.json"))):
        m = json.load(open(mp))
        if m.get("summary"):
            taken.append(m["summary"])
    body = tmpl.replace("{WT}", wt).replace("{PROPERTY}", ptxt)
    body += "ALREADY TAKEN: other engineers already produced these changes for the same property, so yours must be clearly different from all of them (a different function AND a different kind of trigger):\n"
    for t in taken:
        body += "  - %s\n" % t
    body += """
Think about which parts of the property's statement those do NOT touch (other clauses, other methods named in it, other configurations, longer operation histories, larger sizes, deeper nesting, aliases and pointers, interactions between two options, values of unusual Go types, state left behind by an earlier call, package-level state, what happens to the value when it is used a second time) and break one of those. It should survive a reviewer who tries a few dozen ordinary inputs by hand, and ideally also a randomised tester that uses small trees, short histories and the common option combinations. Make sure the change really contradicts the words of the statement above (quote the clause it breaks in SEEDED.md) and is not merely adjacent behaviour.
"""
    open("/tmp/wt/%s-r%d.prompt.txt" % (pid, rnd), "w").write(body)
print("round", rnd, "prepared")
