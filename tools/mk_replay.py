#!/usr/bin/env python3
"""mk_replay.py PROP COMMIT NAME: temporarily put the files touched by fix COMMIT back to their pre-fix state in /repo's
working tree, run PROP's quick check, keep the shrunk replay it produces as known/PROP-NAME.json, restore /repo."""
import subprocess, sys, os, shutil, json
root = os.path.dirname(os.path.dirname(os.path.abspath(__file__)))
prop, commit, name = sys.argv[1:4]
assert subprocess.run(["git", "-C", "/repo", "status", "--porcelain"], capture_output=True, text=True).stdout.strip() == ""
try:
    diff = subprocess.run(["git", "-C", "/repo", "diff", commit + "^", commit], capture_output=True, text=True).stdout
    p = subprocess.run(["git", "-C", "/repo", "apply", "-R"], input=diff, capture_output=True, text=True)
    if p.returncode != 0:
        subprocess.run(["git", "-C", "/repo", "reset", "-q", "--hard", "HEAD"])
        files = subprocess.run(["git", "-C", "/repo", "diff", "--name-only", commit + "^", commit], capture_output=True, text=True).stdout.split()
        subprocess.run(["git", "-C", "/repo", "checkout", commit + "^", "--"] + files, check=True)
    d = "/tmp/scratch/mkreplay"
    shutil.rmtree(d, ignore_errors=True)
    r = subprocess.run([os.path.join(root, "check"), prop], cwd=root, capture_output=True, text=True, env=dict(os.environ, VERIF_REPLAY_DIR=d))
    print(r.stdout[-600:])
    fs = os.listdir(d) if os.path.isdir(d) else []
    if r.returncode == 1 and fs:
        dst = os.path.join(root, "known", "%s-%s.json" % (prop, name))
        shutil.copy(os.path.join(d, fs[0]), dst)
        print("saved", dst, json.load(open(dst))["key"])
    else:
        print("no violation without", commit)
finally:
    subprocess.run(["git", "-C", "/repo", "reset", "-q", "--hard", "HEAD"])
