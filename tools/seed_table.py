#!/usr/bin/env python3
"""Prints the markdown table of seeded changes from seeded/*/meta.json."""
import json, glob, os
root = os.path.dirname(os.path.dirname(os.path.abspath(__file__)))
print("| seed | breaks | change (independent author) | confirmed | first validation | caught by (now) |")
print("|------|--------|------------------------------|-----------|------------------|-----------------|")
for p in sorted(glob.glob(os.path.join(root, "seeded", "*", "meta.json"))):
    m = json.load(open(p))
    sid = m.get("id")
    if "disposition" in m:
        print("| %s | %s | %s | %s | – | – (%s) |" % (sid, m.get("property", sid[:3]), m.get("summary", ""), "yes" if m.get("confirmed") else "no", m["disposition"][:60] + "…"))
        continue
    print("| %s | %s | %s | %s | %s | %s |" % (sid, m.get("property"), m.get("summary", ""), "yes" if m.get("confirmed") else "no",
          ("pre-empted (strengthened after reading the author's report)" if "pre-empted" in m.get("first_validation", "") else "caught") if m.get("first_validation", "").startswith("caught") else "**missed** → check strengthened", ", ".join(m.get("caught_by", [])) or "nothing"))
